#!/bin/bash
# usage: tools/try_patch.sh <patch.diff> [tier]   (VERIF_ENGINES honoured)
# Applies a patch to /repo, runs the baseline tests with the guard off, runs ./check C05, reverts /repo.
set -u
patch="$1"; tier="${2:-quick}"
cd /repo || exit 2
if ! git diff --quiet; then echo "/repo has uncommitted changes"; exit 2; fi
git apply "$patch" || { echo "patch does not apply"; exit 2; }
trap 'git -C /repo checkout -- . ; git -C /repo clean -fdq interpreter antlr example 2>/dev/null' EXIT
echo "== baseline tests (guard off)"
CARGO_NET_OFFLINE=true cargo test --workspace --no-fail-fast --offline 2>&1 | grep -E "^test result|FAILED|panicked|error(\[|:)" | head -12
echo "== check"
cd /verif && ./check C05 "$tier"; echo "check exit code: $?"
