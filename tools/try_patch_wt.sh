#!/bin/bash
# usage: tools/try_patch_wt.sh <patch.diff> <name> [tier]
# Checks a patch in a scratch worktree of /repo (under /tmp), leaving /repo untouched; removes the worktree afterwards.
set -u
patch="$(readlink -f "$1")"; name="$2"; tier="${3:-quick}"
wt="/tmp/mutwt-$name"
git -C /repo worktree remove --force "$wt" >/dev/null 2>&1
git -C /repo worktree add -q --detach "$wt" HEAD || exit 2
cp /repo/Cargo.lock "$wt/"
cd "$wt" && git apply "$patch" || { echo "patch does not apply"; git -C /repo worktree remove --force "$wt"; exit 2; }
if [ "${SKIP_BASELINE:-0}" != "1" ]; then
  echo "== baseline tests (guard off)"
  CARGO_TARGET_DIR="$wt/target" CARGO_NET_OFFLINE=true cargo test --workspace --no-fail-fast --offline 2>&1 | grep -E "^test result|FAILED|panicked|^error" | head -12
  rm -rf "$wt/target"
fi
echo "== check"
cd /verif && VERIF_REPO="$wt" ./check C05 "$tier"; rc=$?
echo "check exit code: $rc"
git -C /repo worktree remove --force "$wt"
alt="/verif/work/alt-$(echo "$wt" | sed 's/[^A-Za-z0-9]\+/_/g; s/^_//; s/_$//')"
rm -rf "$alt/target" "$alt/target-fine" "$alt/target-fallback" "$alt/sim" "$alt/work"
exit $rc
