#!/bin/sh
# RUSTC_WRAPPER for the fine-grained build of the simulator: adds SanitizerCoverage edge callbacks
# (__sanitizer_cov_trace_pc_guard) to the cel_interpreter crate only. The simulator defines the
# callback and turns every instrumented edge into a potential scheduling point.
rustc="$1"; shift
case " $* " in
  *" --crate-name cel_interpreter "*)
    exec "$rustc" "$@" -Cpasses=sancov-module -Cllvm-args=-sanitizer-coverage-level=3 -Cllvm-args=-sanitizer-coverage-trace-pc-guard ;;
  *)
    exec "$rustc" "$@" ;;
esac
