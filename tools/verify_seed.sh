#!/bin/bash
# usage: tools/verify_seed.sh <agent-worktree> <seed-id>
# Copies an agent's deliverables to /verif/seeded/<id>/ and confirms, in the agent's worktree:
# existing suite passes with the patch; demo fails with the patch and passes without it.
set -u
wt="$1"; id="$2"; out="/verif/seeded/$id"
mkdir -p "$out"
cp "$wt/patch.diff" "$out/patch.diff"; cp "$wt/interpreter/tests/demo_c05.rs" "$out/demo_c05.rs"; cp "$wt/NOTES.md" "$out/NOTES.md" 2>/dev/null
cd "$wt" || exit 2
export CARGO_TARGET_DIR="$wt/target" CARGO_NET_OFFLINE=true
git checkout -q -- interpreter/src antlr/src 2>/dev/null
git apply "$out/patch.diff" || { echo "patch does not apply to HEAD"; exit 2; }
mv interpreter/tests/demo_c05.rs /tmp/demo_c05_$id.rs
echo "== existing suite with patch (demo moved aside)"
cargo test --workspace --offline --no-fail-fast 2>&1 | grep -E "^test result|FAILED|^error" | head -12
mv /tmp/demo_c05_$id.rs interpreter/tests/demo_c05.rs
echo "== demo with patch (expect FAILED)"
cargo test --offline -p cel-interpreter --test demo_c05 2>&1 | grep -E "^test result|FAILED" | head -8
git checkout -q -- interpreter/src antlr/src
echo "== demo without patch (expect ok)"
cargo test --offline -p cel-interpreter --test demo_c05 2>&1 | grep -E "^test result|FAILED" | head -8
rm -rf "$wt/target"
