#!/bin/bash
# usage: tools/run_mutants.sh <outfile> [patch...]   (default: all of seeded/*/patch.diff and mutants/*.diff)
# Runs ./check C05 quick against each patch in a scratch worktree (sequentially), recording exit codes.
out="$1"; shift
if [ $# -eq 0 ]; then set -- /verif/seeded/*/patch.diff /verif/mutants/*.diff; fi
: > "$out"
for p in "$@"; do
  name=$(echo "$p" | sed 's#/verif/##; s#/patch.diff##; s#[/.]#_#g')
  start=$(date +%s)
  SKIP_BASELINE=1 /verif/tools/try_patch_wt.sh "$p" "$name" quick > "/verif/work/mut_$name.log" 2>&1
  rc=$?
  viol=$(grep -c "^VIOLATION" "/verif/work/mut_$name.log")
  inv=$(grep "violated invariant\|Miri reported\|blocked forever\|killed by signal\|no longer Send" "/verif/work/mut_$name.log" | head -2 | sed 's/\[check\] //' | cut -c1-150 | tr '\n' '|')
  echo "$name rc=$rc violations=$viol secs=$(( $(date +%s) - start )) :: $inv" >> "$out"
done
