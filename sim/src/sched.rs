//! The "baton" scheduler: real OS threads, exactly one of which runs at any time. At every
//! scheduling point (a hook in cel-interpreter, an instrumented control-flow edge in the
//! fine-grained build, a stub call, or an intercepted futex wait) the running thread asks the
//! seeded policy who runs next; if it is someone else it wakes them and parks itself. Blocking
//! primitives of the code under test are simulated at the futex seam (`futex_wait`/`futex_wake`),
//! so a thread that would block in the kernel instead hands the baton on. The global order of
//! events is a function of (schedule seed, code).
use crate::rng::Rng;
use crate::workload::{Policy, SchedSpec, Stall};
use std::cell::Cell;
use std::collections::BTreeSet;
use std::sync::{Condvar, Mutex};

#[derive(Clone, Copy, PartialEq, Eq, Debug)]
enum Status {
    NotStarted,
    Runnable,
    /// parked inside a simulated futex wait on this address
    Waiting(usize),
    Finished,
}

/// wall-clock patience before a run is declared blocked on something the simulator does not model
const STUCK_MS: u64 = 3000;
/// how long "every simulated thread is waiting" must persist before it is reported as a deadlock
const DEADLOCK_PATIENCE_MS: u64 = 1500;

thread_local! {
    /// set while this thread executes scheduler code: its own Mutex/Condvar must reach the kernel
    static IN_SCHED: Cell<bool> = const { Cell::new(false) };
}

/// The scheduler of the simulation currently in its concurrent phase (one per process at a time).
/// Lets FUTEX_WAKE calls made by threads the simulator does not own (helper threads a change under
/// test may spawn) reach simulated waiters.
static ACTIVE: std::sync::atomic::AtomicPtr<Sched> = std::sync::atomic::AtomicPtr::new(std::ptr::null_mut());

pub fn publish_active(s: Option<&std::sync::Arc<Sched>>) {
    let p = s.map(|a| std::sync::Arc::as_ptr(a) as *mut Sched).unwrap_or(std::ptr::null_mut());
    ACTIVE.store(p, std::sync::atomic::Ordering::SeqCst);
}

/// SAFETY of the returned reference: `run_workload` keeps the Arc alive until after it has called
/// `publish_active(None)` and joined every simulated thread.
pub fn active() -> Option<&'static Sched> {
    let p = ACTIVE.load(std::sync::atomic::Ordering::SeqCst);
    if p.is_null() {
        None
    } else {
        Some(unsafe { &*p })
    }
}

pub fn in_scheduler() -> bool {
    IN_SCHED.try_with(|c| c.get()).unwrap_or(true)
}

struct InSched(bool);
impl InSched {
    fn enter() -> InSched {
        InSched(IN_SCHED.with(|c| c.replace(true)))
    }
}
impl Drop for InSched {
    fn drop(&mut self) {
        let prev = self.0;
        IN_SCHED.with(|c| c.set(prev));
    }
}

pub enum Source {
    /// draw decisions from the policy
    Policy(SchedSpec),
    /// replay an explicit decision sequence; falls back to "keep current" when exhausted
    Explicit { trace: Vec<u8>, enabled_sites: u32, fine_gap: u32, seed: u64 },
}

struct State {
    n: usize,
    current: usize,
    started: bool,
    status: Vec<Status>,
    rng: Rng,
    gap_rng: Rng,
    fine_gap: u32,
    policy: Policy,
    stalls: Vec<Stall>,
    explicit: Option<Vec<u8>>,
    explicit_diverged: bool,
    decisions: u64,
    switches: u64,
    max_decisions: u64,
    overrun: bool,
    free_run: bool,
    foreign_block: bool,
    deadlock: bool,
    trace: Vec<u8>,
    // PCT state
    prio: Vec<u32>,
    change_points: Vec<u64>,
    rr_count: u32,
    // bookkeeping for coverage measures
    parked_site: Vec<u32>,
    /// 0 = not inside an execution; 1 + scope depth for an execution in an own scope; 100 = on the shared root
    in_exec: Vec<u8>,
    /// iteration variable of the comprehension body a thread is currently inside (as announced by stub `yc`)
    comp_var: Vec<Option<String>>,
    same_comp_var_overlaps: u64,
    root_exec_while_other_in_depth3: u64,
    switches_while_two_in_exec: u64,
    preempt_pairs: BTreeSet<(u32, u32)>,
    switch_digest: u64,
    site_switches: [u64; 34],
    futex_waits: u64,
    futex_wakes: u64,
}

pub struct Sched {
    m: Mutex<State>,
    cvs: Vec<Condvar>,
    main_cv: Condvar,
    pub enabled_sites: u32,
    pub fine_gap: u32,
}

/// pseudo-sites used in statistics
pub const SITE_FUTEX: u32 = 32;
pub const SITE_FINISH: u32 = 33;

#[derive(Clone, Debug, Default)]
pub struct SchedStats {
    pub decisions: u64,
    pub switches: u64,
    pub overrun: bool,
    pub foreign_block: bool,
    pub deadlock: bool,
    pub explicit_diverged: bool,
    pub switches_while_two_in_exec: u64,
    pub preempt_pairs: Vec<(u32, u32)>,
    pub switch_digest: u64,
    pub site_switches: Vec<u64>,
    pub futex_waits: u64,
    pub futex_wakes: u64,
    pub same_comp_var_overlaps: u64,
    pub root_exec_while_other_in_depth3: u64,
}

impl Sched {
    pub fn new(n: usize, source: Source, max_decisions: u64) -> Sched {
        let (policy, stalls, seed, explicit, enabled_sites, fine_gap) = match source {
            Source::Policy(s) => (s.policy, s.stalls, s.seed, None, s.enabled_sites, s.fine_gap),
            Source::Explicit { trace, enabled_sites, fine_gap, seed } => (Policy::Random { p_milli: 0 }, vec![], seed, Some(trace), enabled_sites, fine_gap),
        };
        // the stream of edge gaps is separate from the policy's stream, so that an explicit
        // schedule replays with the same gaps as the run that recorded it
        let gap_rng = Rng::new(seed ^ 0x6a70_5f67_6170);
        let mut rng = Rng::new(seed);
        let mut prio: Vec<u32> = (0..n as u32).map(|i| i + 1000).collect();
        rng.shuffle(&mut prio);
        let mut change_points = vec![];
        if let Policy::Pct { depth, horizon } = &policy {
            for _ in 0..*depth {
                change_points.push(rng.below((*horizon).max(1)));
            }
            change_points.sort();
        }
        Sched {
            m: Mutex::new(State {
                n,
                current: usize::MAX,
                started: false,
                status: vec![Status::NotStarted; n],
                rng,
                gap_rng,
                fine_gap,
                policy,
                stalls,
                explicit,
                explicit_diverged: false,
                decisions: 0,
                switches: 0,
                max_decisions,
                overrun: false,
                free_run: false,
                foreign_block: false,
                deadlock: false,
                trace: Vec::new(),
                prio,
                change_points,
                rr_count: 0,
                parked_site: vec![u32::MAX; n],
                in_exec: vec![0; n],
                comp_var: vec![None; n],
                same_comp_var_overlaps: 0,
                root_exec_while_other_in_depth3: 0,
                switches_while_two_in_exec: 0,
                preempt_pairs: BTreeSet::new(),
                switch_digest: 0xcbf2_9ce4_8422_2325,
                site_switches: [0; 34],
                futex_waits: 0,
                futex_wakes: 0,
            }),
            cvs: (0..n).map(|_| Condvar::new()).collect(),
            main_cv: Condvar::new(),
            enabled_sites,
            fine_gap,
        }
    }

    fn draw_gap(st: &mut State) -> u32 {
        if st.fine_gap == 0 {
            0
        } else {
            1 + st.gap_rng.below(2 * st.fine_gap as u64) as u32
        }
    }

    fn stalled(st: &State, t: usize) -> bool {
        st.stalls.iter().any(|s| s.thread == t && st.decisions >= s.from && st.decisions < s.from + s.len)
    }

    /// Picks the next thread to run among the runnable ones. `cur` is the thread making the
    /// decision (it may be finished or about to wait). None = nobody can run.
    fn choose(st: &mut State, cur: usize) -> Option<usize> {
        let runnable: Vec<usize> = (0..st.n).filter(|t| st.status[*t] == Status::Runnable).collect();
        if runnable.is_empty() {
            return None;
        }
        let idx = st.decisions;
        st.decisions += 1;
        let cur_runnable = cur < st.n && st.status[cur] == Status::Runnable;
        if let Some(tr) = &st.explicit {
            let want = tr.get(idx as usize).map(|x| *x as usize);
            let pick = match want {
                Some(w) if w < st.n && st.status[w] == Status::Runnable => w,
                _ => {
                    st.explicit_diverged = true;
                    if cur_runnable {
                        cur
                    } else {
                        runnable[0]
                    }
                }
            };
            return Some(pick);
        }
        let mut cands: Vec<usize> = runnable.iter().copied().filter(|t| !Self::stalled(st, *t)).collect();
        if cands.is_empty() {
            cands = runnable.clone();
        }
        let cur_ok = cur < st.n && cands.contains(&cur);
        let pick = match st.policy.clone() {
            Policy::Random { p_milli } => {
                if cur_ok && !st.rng.chance(p_milli as u64, 1000) {
                    cur
                } else {
                    cands[st.rng.usize(cands.len())]
                }
            }
            Policy::RoundRobin { q } => {
                st.rr_count += 1;
                if cur_ok && st.rr_count < q.max(1) {
                    cur
                } else {
                    st.rr_count = 0;
                    // next candidate after cur in cyclic order
                    let mut best = cands[0];
                    for c in &cands {
                        if cur < st.n && *c > cur {
                            best = *c;
                            break;
                        }
                    }
                    best
                }
            }
            Policy::Pct { .. } => {
                while let Some(cp) = st.change_points.first().copied() {
                    if cp <= idx {
                        st.change_points.remove(0);
                        if cur < st.n {
                            // demote the running thread below everyone
                            let low = st.prio.iter().copied().min().unwrap_or(1).saturating_sub(1);
                            st.prio[cur] = low;
                        }
                    } else {
                        break;
                    }
                }
                let mut best = cands[0];
                for c in &cands {
                    if st.prio[*c] > st.prio[best] {
                        best = *c;
                    }
                }
                best
            }
        };
        Some(pick)
    }

    fn note_switch(st: &mut State, from: usize, to: usize, site: u32) {
        st.switches += 1;
        let n_in_exec = st.in_exec.iter().filter(|x| **x != 0).count();
        if n_in_exec >= 2 {
            st.switches_while_two_in_exec += 1;
        }
        let to_site = st.parked_site[to];
        if site < SITE_FUTEX && to_site != u32::MAX {
            st.preempt_pairs.insert((site, to_site));
        }
        if (site as usize) < st.site_switches.len() {
            st.site_switches[site as usize] += 1;
        }
        // digest of (decision index, from, to, site): identifies the context-switch trace
        for w in [st.decisions, from as u64, to as u64, site as u64] {
            st.switch_digest = (st.switch_digest ^ w).wrapping_mul(0x0000_0100_0000_01b3);
        }
    }

    fn release_everyone(&self, st: &mut State) {
        st.free_run = true;
        for cv in &self.cvs {
            cv.notify_all();
        }
    }

    /// Every live thread waits on a futex nobody will wake: the execution is deadlocked. The threads
    /// cannot be unwound out of the primitives they block in, so the verdict is delivered through the
    /// process exit code (the orchestrator treats it like a crash of this run index and replays it).
    fn deadlocked(&self, st: &mut State) -> ! {
        st.deadlock = true;
        let waits: Vec<String> = st.status.iter().enumerate().map(|(t, s)| format!("t{}={:?}", t, s)).collect();
        eprintln!("celsim: DEADLOCK after {} decisions: {}", st.decisions, waits.join(" "));
        std::process::exit(4);
    }

    /// Parks the calling thread (which must have released the baton) until it is current again.
    fn park_until_current<'a>(&'a self, mut st: std::sync::MutexGuard<'a, State>, tid: usize) -> std::sync::MutexGuard<'a, State> {
        while !(st.free_run || st.current == tid) {
            // The baton holder normally reaches its next scheduling point within microseconds. If no
            // decision at all is made for STUCK_MS of wall time, the holder is blocked on something the
            // simulator does not model (a spin lock, a foreign blocking call). That is an artefact of
            // serialising threads, not a behaviour of the code: stop scheduling and let all threads run
            // freely; the oracles stay sound on any real execution, only deterministic replay of this
            // run is lost (flagged `foreign_block`).
            let seen = st.decisions;
            let (g, to) = self.cvs[tid].wait_timeout(st, std::time::Duration::from_millis(STUCK_MS)).unwrap();
            st = g;
            if to.timed_out() && !st.free_run && st.current != tid && st.decisions == seen {
                st.foreign_block = true;
                self.release_everyone(&mut st);
            }
        }
        st
    }

    /// Called by each simulated thread before it does anything: blocks until it is given the baton.
    /// Returns the number of instrumented edges until its first edge decision (0 = none).
    pub fn wait_start(&self, tid: usize) -> u32 {
        let _g = InSched::enter();
        let mut st = self.m.lock().unwrap();
        st.status[tid] = Status::Runnable;
        self.main_cv.notify_all();
        while !(st.free_run || (st.started && st.current == tid)) {
            st = self.cvs[tid].wait(st).unwrap();
        }
        Self::draw_gap(&mut st)
    }

    /// Called by the main thread once all threads are spawned: waits until every thread is parked
    /// at its start line, then hands the baton to the first chosen thread.
    pub fn start(&self) {
        let _g = InSched::enter();
        let mut st = self.m.lock().unwrap();
        while st.status.iter().any(|s| *s == Status::NotStarted) {
            st = self.main_cv.wait(st).unwrap();
        }
        st.started = true;
        if let Some(first) = Self::choose(&mut st, usize::MAX) {
            st.current = first;
            st.trace.push(first as u8);
            self.cvs[first].notify_all();
        }
    }

    pub fn set_in_exec(&self, tid: usize, v: u8) {
        let _g = InSched::enter();
        let mut st = self.m.lock().unwrap();
        st.in_exec[tid] = v;
        if v == 0 {
            st.comp_var[tid] = None;
        }
        if v == 100 && (0..st.n).any(|t| t != tid && st.in_exec[t] == 4) {
            st.root_exec_while_other_in_depth3 += 1;
        }
        if v == 4 && (0..st.n).any(|t| t != tid && st.in_exec[t] == 100) {
            st.root_exec_while_other_in_depth3 += 1;
        }
    }

    /// Stub `yc` announces that thread `tid` is inside a comprehension body iterating `var`.
    pub fn note_comp_var(&self, tid: usize, var: &str) {
        let _g = InSched::enter();
        let mut st = self.m.lock().unwrap();
        if (0..st.n).any(|t| t != tid && st.comp_var[t].as_deref() == Some(var)) {
            st.same_comp_var_overlaps += 1;
        }
        st.comp_var[tid] = Some(var.to_string());
    }

    /// A scheduling point reached by thread `tid`. Returns the number of instrumented edges until
    /// this thread's next edge decision (0 = none).
    pub fn yield_point(&self, tid: usize, site: u32) -> (u32, bool) {
        let _g = InSched::enter();
        let mut st = self.m.lock().unwrap();
        if st.free_run {
            return (st.fine_gap, false);
        }
        if st.current != tid {
            // can only happen for a thread the simulator lost track of (e.g. after a wait that went
            // to the kernel): wait for the baton rather than run beside its holder
            st = self.park_until_current(st, tid);
            if st.free_run {
                return (st.fine_gap, false);
            }
        }
        if st.decisions >= st.max_decisions {
            // I6: bounded progress exceeded. Stop scheduling; let everything run out.
            st.overrun = true;
            self.release_everyone(&mut st);
            return (st.fine_gap, false);
        }
        let next = Self::choose(&mut st, tid).unwrap_or(tid);
        st.trace.push(next as u8);
        let switched = next != tid;
        if next != tid {
            st.parked_site[tid] = site;
            Self::note_switch(&mut st, tid, next, site);
            st.current = next;
            self.cvs[next].notify_all();
            st = self.park_until_current(st, tid);
            st.parked_site[tid] = u32::MAX;
        }
        (Self::draw_gap(&mut st), switched)
    }

    /// The code under test is about to block in FUTEX_WAIT on `addr` expecting the futex word to hold
    /// `expected`. The word is read under the scheduler lock (every simulated or foreign wake also
    /// takes that lock after storing the new value, so no wake-up is lost). Returns None if the wait
    /// is not simulated and must go to the kernel, Some(false) if the word changed (EAGAIN),
    /// Some(true) after having been woken.
    pub fn futex_wait(&self, tid: usize, addr: usize, expected: u32) -> Option<bool> {
        let _g = InSched::enter();
        let mut st = self.m.lock().unwrap();
        if st.free_run || st.current != tid {
            return None;
        }
        // SAFETY: `addr` is the futex word the caller is about to wait on; it is alive for the call.
        let cur = unsafe { (*(addr as *const std::sync::atomic::AtomicU32)).load(std::sync::atomic::Ordering::SeqCst) };
        if cur != expected {
            return Some(false);
        }
        st.futex_waits += 1;
        st.status[tid] = Status::Waiting(addr);
        loop {
            match Self::choose(&mut st, tid) {
                Some(next) => {
                    st.trace.push(next as u8);
                    if next != tid {
                        st.parked_site[tid] = SITE_FUTEX;
                        Self::note_switch(&mut st, tid, next, SITE_FUTEX);
                        st.current = next;
                        self.cvs[next].notify_all();
                        st = self.park_until_current(st, tid);
                        st.parked_site[tid] = u32::MAX;
                    }
                    if st.status[tid] != Status::Finished {
                        st.status[tid] = Status::Runnable;
                    }
                    return Some(true);
                }
                None => {
                    // Nobody is runnable. A wake may still come from a thread the simulator does not
                    // own (a helper thread spawned by the code under test): give it a moment of wall
                    // time before calling it a deadlock.
                    let (g, _) = self.cvs[tid].wait_timeout(st, std::time::Duration::from_millis(DEADLOCK_PATIENCE_MS)).unwrap();
                    st = g;
                    if st.free_run {
                        st.status[tid] = Status::Runnable;
                        return Some(true);
                    }
                    if !st.status.iter().any(|x| *x == Status::Runnable) {
                        self.deadlocked(&mut st);
                    }
                }
            }
        }
    }

    /// FUTEX_WAKE on `addr` by the running thread: up to `n` simulated waiters become runnable
    /// (lowest thread index first). Returns how many.
    pub fn futex_wake(&self, addr: usize, n: usize) -> usize {
        let _g = InSched::enter();
        let mut st = self.m.lock().unwrap();
        let mut woken = 0;
        for t in 0..st.n {
            if woken >= n {
                break;
            }
            if st.status[t] == Status::Waiting(addr) {
                st.status[t] = Status::Runnable;
                woken += 1;
                // if that thread is the baton holder sitting out a no-one-runnable pause, let it look again
                if st.current == t {
                    self.cvs[t].notify_all();
                }
            }
        }
        st.futex_wakes += woken as u64;
        woken
    }

    /// Thread `tid` has finished its op list: pass the baton on.
    pub fn finish(&self, tid: usize) {
        let _g = InSched::enter();
        let mut st = self.m.lock().unwrap();
        st.status[tid] = Status::Finished;
        st.in_exec[tid] = 0;
        st.comp_var[tid] = None;
        if st.free_run {
            return;
        }
        if st.current != tid {
            return;
        }
        match Self::choose(&mut st, tid) {
            Some(next) => {
                st.trace.push(next as u8);
                Self::note_switch(&mut st, tid, next, SITE_FINISH);
                st.current = next;
                self.cvs[next].notify_all();
            }
            None => {
                if st.status.iter().any(|s| matches!(s, Status::Waiting(_))) {
                    self.deadlocked(&mut st);
                }
            }
        }
    }

    /// Emergency release (a thread is about to unwind out of the harness): stop scheduling.
    pub fn release_all(&self) {
        let _g = InSched::enter();
        let mut st = self.m.lock().unwrap();
        self.release_everyone(&mut st);
    }

    pub fn take_trace(&self) -> Vec<u8> {
        let _g = InSched::enter();
        let mut st = self.m.lock().unwrap();
        std::mem::take(&mut st.trace)
    }

    pub fn stats(&self) -> SchedStats {
        let _g = InSched::enter();
        let st = self.m.lock().unwrap();
        SchedStats {
            decisions: st.decisions,
            switches: st.switches,
            overrun: st.overrun,
            foreign_block: st.foreign_block,
            deadlock: st.deadlock,
            explicit_diverged: st.explicit_diverged,
            switches_while_two_in_exec: st.switches_while_two_in_exec,
            preempt_pairs: st.preempt_pairs.iter().copied().collect(),
            switch_digest: st.switch_digest,
            site_switches: st.site_switches.to_vec(),
            futex_waits: st.futex_waits,
            futex_wakes: st.futex_wakes,
            same_comp_var_overlaps: st.same_comp_var_overlaps,
            root_exec_while_other_in_depth3: st.root_exec_while_other_in_depth3,
        }
    }
}
