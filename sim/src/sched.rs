//! The "baton" scheduler: real OS threads, exactly one of which runs at any time. At every hook
//! point the running thread asks the seeded policy who runs next; if it is someone else it wakes
//! them and parks itself. The global order of hook events is a function of (schedule seed, code).
use crate::rng::Rng;
use crate::workload::{Policy, SchedSpec, Stall};
use std::collections::BTreeSet;
use std::sync::{Condvar, Mutex};

#[derive(Clone, Copy, PartialEq, Eq, Debug)]
enum Status {
    NotStarted,
    Runnable,
    Finished,
}

/// wall-clock patience before a run is declared blocked on a foreign primitive (see `yield_point`)
const STUCK_MS: u64 = 3000;

pub enum Source {
    /// draw decisions from the policy
    Policy(SchedSpec),
    /// replay an explicit decision sequence; falls back to "keep current" when exhausted
    Explicit { trace: Vec<u8>, enabled_sites: u32 },
}

struct State {
    n: usize,
    current: usize,
    started: bool,
    status: Vec<Status>,
    rng: Rng,
    policy: Policy,
    stalls: Vec<Stall>,
    explicit: Option<Vec<u8>>,
    explicit_diverged: bool,
    decisions: u64,
    switches: u64,
    max_decisions: u64,
    overrun: bool,
    free_run: bool,
    foreign_block: bool,
    trace: Vec<u8>,
    // PCT state
    prio: Vec<u32>,
    change_points: Vec<u64>,
    rr_count: u32,
    // bookkeeping for coverage measures
    parked_site: Vec<u32>,
    in_exec: Vec<bool>,
    switches_while_two_in_exec: u64,
    preempt_pairs: BTreeSet<(u32, u32)>,
    switch_digest: u64,
    site_switches: [u64; 32],
}

pub struct Sched {
    m: Mutex<State>,
    cvs: Vec<Condvar>,
    main_cv: Condvar,
    pub enabled_sites: u32,
}

#[derive(Clone, Debug, Default)]
pub struct SchedStats {
    pub decisions: u64,
    pub switches: u64,
    pub overrun: bool,
    pub foreign_block: bool,
    pub explicit_diverged: bool,
    pub switches_while_two_in_exec: u64,
    pub preempt_pairs: Vec<(u32, u32)>,
    pub switch_digest: u64,
    pub site_switches: Vec<u64>,
}

impl Sched {
    pub fn new(n: usize, source: Source, max_decisions: u64) -> Sched {
        let (policy, stalls, seed, explicit, enabled_sites) = match source {
            Source::Policy(s) => (s.policy, s.stalls, s.seed, None, s.enabled_sites),
            Source::Explicit { trace, enabled_sites } => (
                Policy::Random { p_milli: 0 },
                vec![],
                0,
                Some(trace),
                enabled_sites,
            ),
        };
        let mut rng = Rng::new(seed);
        let mut prio: Vec<u32> = (0..n as u32).map(|i| i + 1000).collect();
        rng.shuffle(&mut prio);
        let mut change_points = vec![];
        if let Policy::Pct { depth, horizon } = &policy {
            for _ in 0..*depth {
                change_points.push(rng.below((*horizon).max(1)));
            }
            change_points.sort();
        }
        Sched {
            m: Mutex::new(State {
                n,
                current: usize::MAX,
                started: false,
                status: vec![Status::NotStarted; n],
                rng,
                policy,
                stalls,
                explicit,
                explicit_diverged: false,
                decisions: 0,
                switches: 0,
                max_decisions,
                overrun: false,
                free_run: false,
                foreign_block: false,
                trace: Vec::new(),
                prio,
                change_points,
                rr_count: 0,
                parked_site: vec![u32::MAX; n],
                in_exec: vec![false; n],
                switches_while_two_in_exec: 0,
                preempt_pairs: BTreeSet::new(),
                switch_digest: 0xcbf2_9ce4_8422_2325,
                site_switches: [0; 32],
            }),
            cvs: (0..n).map(|_| Condvar::new()).collect(),
            main_cv: Condvar::new(),
            enabled_sites,
        }
    }

    fn eligible(st: &State, t: usize) -> bool {
        if st.status[t] == Status::Finished {
            return false;
        }
        for s in &st.stalls {
            if s.thread == t && st.decisions >= s.from && st.decisions < s.from + s.len {
                return false;
            }
        }
        true
    }

    /// Picks the next thread to run. `cur` is the thread making the decision (it may be finished).
    fn choose(st: &mut State, cur: usize) -> Option<usize> {
        let alive: Vec<usize> = (0..st.n).filter(|t| st.status[*t] != Status::Finished).collect();
        if alive.is_empty() {
            return None;
        }
        let idx = st.decisions;
        st.decisions += 1;
        if let Some(tr) = &st.explicit {
            let want = tr.get(idx as usize).map(|x| *x as usize);
            let pick = match want {
                Some(w) if w < st.n && st.status[w] != Status::Finished => w,
                _ => {
                    st.explicit_diverged = true;
                    if st.status.get(cur).copied() != Some(Status::Finished) && cur < st.n {
                        cur
                    } else {
                        alive[0]
                    }
                }
            };
            return Some(pick);
        }
        let mut cands: Vec<usize> = alive.iter().copied().filter(|t| Self::eligible(st, *t)).collect();
        if cands.is_empty() {
            cands = alive.clone();
        }
        let cur_ok = cur < st.n && cands.contains(&cur);
        let pick = match st.policy.clone() {
            Policy::Random { p_milli } => {
                if cur_ok && !st.rng.chance(p_milli as u64, 1000) {
                    cur
                } else {
                    cands[st.rng.usize(cands.len())]
                }
            }
            Policy::RoundRobin { q } => {
                st.rr_count += 1;
                if cur_ok && st.rr_count < q.max(1) {
                    cur
                } else {
                    st.rr_count = 0;
                    // next candidate after cur in cyclic order
                    let mut best = cands[0];
                    for c in &cands {
                        if cur < st.n && *c > cur {
                            best = *c;
                            break;
                        }
                    }
                    best
                }
            }
            Policy::Pct { .. } => {
                while let Some(cp) = st.change_points.first().copied() {
                    if cp <= idx {
                        st.change_points.remove(0);
                        if cur < st.n {
                            // demote the running thread below everyone
                            let low = st.prio.iter().copied().min().unwrap_or(1).saturating_sub(1);
                            st.prio[cur] = low;
                        }
                    } else {
                        break;
                    }
                }
                let mut best = cands[0];
                for c in &cands {
                    if st.prio[*c] > st.prio[best] {
                        best = *c;
                    }
                }
                best
            }
        };
        Some(pick)
    }

    fn note_switch(st: &mut State, from: usize, to: usize, site: u32) {
        st.switches += 1;
        let n_in_exec = st.in_exec.iter().filter(|x| **x).count();
        if n_in_exec >= 2 {
            st.switches_while_two_in_exec += 1;
        }
        let to_site = st.parked_site[to];
        if site != u32::MAX && to_site != u32::MAX {
            st.preempt_pairs.insert((site, to_site));
        }
        if (site as usize) < 32 {
            st.site_switches[site as usize] += 1;
        }
        // digest of (decision index, from, to, site): identifies the context-switch trace
        for w in [st.decisions, from as u64, to as u64, site as u64] {
            st.switch_digest = (st.switch_digest ^ w).wrapping_mul(0x0000_0100_0000_01b3);
        }
    }

    /// Called by each simulated thread before it does anything: blocks until it is given the baton.
    pub fn wait_start(&self, tid: usize) {
        let mut st = self.m.lock().unwrap();
        st.status[tid] = Status::Runnable;
        self.main_cv.notify_all();
        while !(st.free_run || (st.started && st.current == tid)) {
            st = self.cvs[tid].wait(st).unwrap();
        }
    }

    /// Called by the main thread once all threads are spawned: waits until every thread is parked
    /// at its start line, then hands the baton to the first chosen thread.
    pub fn start(&self) {
        let mut st = self.m.lock().unwrap();
        while st.status.iter().any(|s| *s == Status::NotStarted) {
            st = self.main_cv.wait(st).unwrap();
        }
        st.started = true;
        if let Some(first) = Self::choose(&mut st, usize::MAX) {
            st.current = first;
            st.trace.push(first as u8);
            self.cvs[first].notify_all();
        }
    }

    pub fn set_in_exec(&self, tid: usize, v: bool) {
        let mut st = self.m.lock().unwrap();
        st.in_exec[tid] = v;
    }

    /// A hook point reached by thread `tid` (which must hold the baton).
    pub fn yield_point(&self, tid: usize, site: u32) {
        let mut st = self.m.lock().unwrap();
        if st.free_run {
            return;
        }
        debug_assert_eq!(st.current, tid);
        if st.decisions >= st.max_decisions {
            // I6: bounded progress exceeded. Stop scheduling; let everything run out.
            st.overrun = true;
            st.free_run = true;
            for cv in &self.cvs {
                cv.notify_all();
            }
            return;
        }
        let next = Self::choose(&mut st, tid).unwrap_or(tid);
        st.trace.push(next as u8);
        if next != tid {
            st.parked_site[tid] = site;
            Self::note_switch(&mut st, tid, next, site);
            st.current = next;
            self.cvs[next].notify_all();
            while !(st.free_run || st.current == tid) {
                // The baton holder normally reaches its next hook point within microseconds. If no
                // decision at all is made for STUCK_MS of wall time, the holder is blocked in the
                // kernel on something a parked thread owns (a lock added by the code under test):
                // an artefact of serialising threads, not a behaviour of the code. Stop scheduling
                // and let all threads run freely; the oracles stay sound on any real execution,
                // only deterministic replay of this run is lost (flagged `foreign_block`).
                let seen = st.decisions;
                let (g, to) = self.cvs[tid].wait_timeout(st, std::time::Duration::from_millis(STUCK_MS)).unwrap();
                st = g;
                if to.timed_out() && !st.free_run && st.current != tid && st.decisions == seen {
                    st.foreign_block = true;
                    st.free_run = true;
                    for cv in &self.cvs {
                        cv.notify_all();
                    }
                }
            }
            st.parked_site[tid] = u32::MAX;
        }
    }

    /// Thread `tid` has finished its op list: pass the baton on.
    pub fn finish(&self, tid: usize) {
        let mut st = self.m.lock().unwrap();
        st.status[tid] = Status::Finished;
        st.in_exec[tid] = false;
        if st.free_run {
            return;
        }
        if let Some(next) = Self::choose(&mut st, tid) {
            st.trace.push(next as u8);
            Self::note_switch(&mut st, tid, next, u32::MAX);
            st.current = next;
            self.cvs[next].notify_all();
        }
    }

    /// Emergency release (a thread is about to unwind out of the harness): stop scheduling.
    pub fn release_all(&self) {
        let mut st = self.m.lock().unwrap();
        st.free_run = true;
        for cv in &self.cvs {
            cv.notify_all();
        }
    }

    pub fn take_trace(&self) -> Vec<u8> {
        let mut st = self.m.lock().unwrap();
        std::mem::take(&mut st.trace)
    }

    pub fn stats(&self) -> SchedStats {
        let st = self.m.lock().unwrap();
        SchedStats {
            decisions: st.decisions,
            switches: st.switches,
            overrun: st.overrun,
            foreign_block: st.foreign_block,
            explicit_diverged: st.explicit_diverged,
            switches_while_two_in_exec: st.switches_while_two_in_exec,
            preempt_pairs: st.preempt_pairs.iter().copied().collect(),
            switch_digest: st.switch_digest,
            site_switches: st.site_switches.to_vec(),
        }
    }
}
