//! Executes one `Workload`: reference phase (every thread's op list alone, on a pristine root),
//! simulated concurrent phase (baton scheduler, or free-running under Miri), epilogue; or, for
//! engine S, one sequential history with pristine-twin comparisons. Invariants I1–I6 are
//! evaluated while the run proceeds.
use crate::rng::mix;
use crate::sched::{Sched, SchedStats, Source};
use crate::snap::{build_root, build_value, digest_obs, first_difference, observe, rebuild_from_snap, snap, BuiltRoot, Outcome, Snap};
use crate::tls::{self, OracleGuard, Probes};
use crate::workload::*;
use cel_interpreter::{Context, Program, Value};
use std::collections::BTreeMap;
use std::panic::{catch_unwind, AssertUnwindSafe};
use std::sync::atomic::{AtomicBool, Ordering};
use std::sync::{Arc, Mutex};

pub const MAX_SCOPE_DEPTH: usize = 3;
pub const MAX_RETAINED: usize = 8;
pub const MAX_RETAINED_WEIGHT: usize = 100;

/// Every name the generator may bind anywhere (root or scopes); used for "absent stays absent".
pub const NAME_POOL: &[&str] = &[
    "l", "l2", "ls", "ll", "s", "t", "m", "mi", "mm", "i", "n", "b", "by", "x", "k", "size", "u", "d", "e", "v", "dur", "ts", "zz",
];

/// programs the parser of the tree under test rejected (process-wide count)
pub static REJECTED: std::sync::atomic::AtomicU64 = std::sync::atomic::AtomicU64::new(0);

pub struct Compiled {
    pub programs: Vec<Program>,
    /// the parsed expression of each program (None if the tree's parser rejected the source): lets the
    /// harness make pristine copies of a program cheaply (`Program::from_expression(ast.clone())`)
    pub asts: Vec<Option<cel_parser::Expression>>,
    /// sorted (variables, functions) reported by `references()` right after compilation
    pub refs: Vec<(Vec<String>, Vec<String>)>,
}

fn refs_of(p: &Program) -> (Vec<String>, Vec<String>) {
    let r = p.references();
    let mut v: Vec<String> = r.variables().iter().map(|s| s.to_string()).collect();
    let mut f: Vec<String> = r.functions().iter().map(|s| s.to_string()).collect();
    v.sort();
    f.sort();
    (v, f)
}

pub fn compile_all(w: &Workload, use_ast: bool) -> Result<Compiled, String> {
    let mut programs = Vec::with_capacity(w.programs.len());
    for (i, p) in w.programs.iter().enumerate() {
        let prog = if use_ast {
            match &p.ast {
                Some(a) => Program::from_expression(crate::astio::to_expr(a)),
                None => return Err(format!("program {} has no imported AST", i)),
            }
        } else {
            // C05 says nothing about compiling: a source the tree under test rejects (or panics on) is
            // replaced by a constant and counted, never reported
            match catch_unwind(AssertUnwindSafe(|| Program::compile(&p.src))) {
                Ok(Ok(p)) => p,
                _ => {
                    REJECTED.fetch_add(1, Ordering::Relaxed);
                    match Program::compile("null") {
                        Ok(p) => p,
                        Err(e) => return Err(format!("the tree under test cannot even compile `null`: {}", e)),
                    }
                }
            }
        };
        programs.push(prog);
    }
    let refs = programs.iter().map(refs_of).collect();
    let asts = w
        .programs
        .iter()
        .map(|p| {
            if use_ast {
                p.ast.as_ref().map(crate::astio::to_expr)
            } else {
                catch_unwind(AssertUnwindSafe(|| cel_parser::Parser::default().parse(&p.src))).ok().and_then(|r| r.ok())
            }
        })
        .collect();
    Ok(Compiled { programs, refs, asts })
}

impl Compiled {
    /// A pristine copy of program `i` (None if its source could not be parsed).
    pub fn fresh(&self, i: usize) -> Option<Program> {
        self.asts[i].as_ref().map(|a| Program::from_expression(a.clone()))
    }
}

#[derive(Clone, Debug)]
pub struct OpRecord {
    pub outcome: Option<Outcome>,
    pub fail_at: u32,
    pub steps: u64,
    /// digest of what the thread could see from its innermost scope after this op (0 = not taken)
    pub obs_digest: u64,
}

#[derive(Clone, Debug, Default)]
pub struct RunStats {
    pub executions: u64,
    pub ops: u64,
    pub solo_steps: u64,
    pub conc_steps: u64,
    pub solo_edges: u64,
    pub conc_edges: u64,
    pub probes: Probes,
    pub sched: SchedStats,
    pub twin_same_compared: u64,
    pub twin_other_compared: u64,
    pub twin_fresh_thread_compared: u64,
    pub twin_fresh_program_compared: u64,
    pub skipped_order_sensitive: u64,
    pub faults_planned: u64,
    pub faults_fired_in_comprehension: u64,
    pub outcomes_ok: u64,
    pub outcomes_err: u64,
    pub outcomes_panic: u64,
    pub exec_on_root: u64,
    pub exec_on_private: u64,
    pub exec_in_scope_depth: [u64; MAX_SCOPE_DEPTH + 1],
    pub host_adds: u64,
    pub host_mutations: u64,
    pub retained_alias_defines: u64,
    pub root_alias_defines: u64,
    pub scope_opens: u64,
    pub took_both_append_paths: bool,
    pub invariant_checks: u64,
    /// digest over everything observable of the run (decisions, outcomes in completion order)
    pub run_digest: u64,
    pub outcome_digests: Vec<u64>,
}

pub struct RunResult {
    pub violation: Option<ViolationInfo>,
    pub stats: RunStats,
    pub trace: Vec<u8>,
    pub event_log: Vec<String>,
    pub harness_error: Option<String>,
}

#[derive(Clone, Copy, PartialEq, Eq, Debug)]
pub enum Phase {
    Solo,
    Concurrent,
    Sequential,
}

impl Phase {
    fn name(&self) -> &'static str {
        match self {
            Phase::Solo => "solo-reference",
            Phase::Concurrent => "concurrent",
            Phase::Sequential => "sequential-history",
        }
    }
}

#[derive(Clone)]
struct Binding {
    src: ValSrc,
    /// An observer that keeps a handle perturbs what it observes (an extra `Arc` owner turns an
    /// in-place append into a copy), so the model keeps an alias of the bound value only sometimes
    /// (a pure function of the run seed and op), and always when a pristine twin could not rebuild
    /// the value with the same map iteration order.
    alias: Option<Value>,
    snap: Snap,
}

fn execute(p: &Program, ctx: &Context) -> Outcome {
    // taking the picture of the result is inside the guard too: a tree with memory-unsafe value
    // handling can hand out values whose mere formatting panics
    match catch_unwind(AssertUnwindSafe(|| Outcome::of(&p.execute(ctx)))) {
        Ok(o) => o,
        Err(payload) => Outcome::Panic(panic_text(payload)),
    }
}

/// Values carried inside an execution error are "values previously obtained" too (they alias
/// operands, possibly buffers of the context): the host may hold on to the error.
fn value_in_error(e: &cel_interpreter::ExecutionError) -> Option<Value> {
    use cel_interpreter::ExecutionError as E;
    #[allow(unreachable_patterns)]
    match e {
        E::UnsupportedBinaryOperator(_, l, r) | E::ValuesNotComparable(l, r) | E::UnsupportedIndex(l, r) | E::IntegerOverflow(_, l, r) => {
            Some(Value::List(Arc::new(vec![l.clone(), r.clone()])))
        }
        E::UnsupportedKeyType(v) | E::UnsupportedMapIndex(v) | E::UnsupportedListIndex(v) | E::UnsupportedUnaryOperator(_, v) | E::DivisionByZero(v) | E::RemainderByZero(v) => Some(v.clone()),
        E::UnsupportedTargetType { target } | E::NotSupportedAsMethod { target, .. } => Some(target.clone()),
        _ => None,
    }
}

fn execute_keep(p: &Program, ctx: &Context) -> (Outcome, Option<Value>) {
    match catch_unwind(AssertUnwindSafe(|| {
        let r = p.execute(ctx);
        let o = Outcome::of(&r);
        let keep = match &r {
            Ok(_) => None,
            Err(e) => value_in_error(e),
        };
        (o, r.ok().or(keep))
    })) {
        Ok(x) => x,
        Err(payload) => (Outcome::Panic(panic_text(payload)), None),
    }
}

fn panic_text(payload: Box<dyn std::any::Any + Send>) -> String {
    if let Some(s) = payload.downcast_ref::<&str>() {
        s.to_string()
    } else if let Some(s) = payload.downcast_ref::<String>() {
        s.clone()
    } else {
        "<non-string panic payload>".to_string()
    }
}

struct Shared<'w> {
    w: &'w Workload,
    compiled: &'w Compiled,
    stop: AtomicBool,
    violation: Mutex<Option<ViolationInfo>>,
    events: Mutex<Vec<String>>,
    /// results the main thread obtained in the prologue; threads bind clones of them in their scopes
    handoff: Vec<Value>,
    /// programs come from imported ASTs (engine M): no parser available at run time
    use_ast: bool,
    /// off in free-running mode (engine M): a mutex taken by every thread after every operation
    /// would order their memory accesses and hide data races from Miri's detector
    log_events: bool,
}

impl<'w> Shared<'w> {
    fn report(&self, v: ViolationInfo) {
        let mut g = self.violation.lock().unwrap();
        if g.is_none() {
            *g = Some(v);
        }
        self.stop.store(true, Ordering::SeqCst);
    }
    fn stopped(&self) -> bool {
        self.stop.load(Ordering::SeqCst)
    }
    fn event(&self, s: String) {
        if !self.log_events {
            return;
        }
        let mut g = self.events.lock().unwrap();
        if g.len() >= 4096 {
            g.drain(0..2048);
        }
        g.push(s);
    }
}

struct Runner<'a, 'w> {
    sh: &'a Shared<'w>,
    tid: usize,
    phase: Phase,
    ops: &'w [Op],
    /// own scopes, innermost last; index 0 is the base scope every thread opens over the root
    model: Vec<BTreeMap<String, Binding>>,
    root_expect: &'a [Outcome],
    private_expect: Option<&'a [Outcome]>,
    /// observation of the innermost scope after the previous op, if no defining op happened since
    last_obs: Option<Vec<Outcome>>,
    retained_snaps: Vec<Snap>,
    /// Solo/Sequential: being written; Concurrent: reference to compare with
    records: Vec<OpRecord>,
    reference: Option<&'a [OpRecord]>,
    stats: RunStats,
    sched: Option<Arc<Sched>>,
    /// what the scheduler is told about the execution in flight (1 + scope depth, 100 = shared root)
    exec_code: u8,
    /// Solo (reference) phase: this thread's own pristine copies of the programs, so that "what it
    /// would yield alone" does not depend on what other threads' reference runs left in the shared
    /// program objects. None = use the shared program (sequential and concurrent phases).
    own_programs: Vec<Option<Program>>,
}

impl<'a, 'w> Runner<'a, 'w> {
    fn violate(&mut self, invariant: &str, op_index: usize, expected: String, got: String, detail: String) {
        self.sh.report(ViolationInfo {
            invariant: invariant.to_string(),
            phase: self.phase.name().to_string(),
            thread: self.tid,
            op_index,
            expected,
            got,
            detail,
        });
    }

    /// I2 + I4 (+ I3 when `full`).
    fn check_invariants(&mut self, root: &Context, private: Option<&Context>, cur: &Context, op_index: usize, full: bool) {
        if self.sh.stopped() {
            return;
        }
        let _g = OracleGuard::enter();
        self.stats.invariant_checks += 1;
        // I2-root: the shared root still answers every lookup as it did right after it was built
        let robs = observe(root);
        if let Some(i) = first_difference(&robs, self.root_expect) {
            let (e, g) = (self.root_expect[i].show(), robs[i].show());
            self.violate("I2-root", op_index, e, g, format!("root variable `{}` no longer reads as it did when the context was built", NAME_POOL[i]));
            return;
        }
        if let (Some(p), Some(pe)) = (private, self.private_expect) {
            let pobs = observe(p);
            if let Some(i) = first_difference(&pobs, pe) {
                let (e, g) = (pe[i].show(), pobs[i].show());
                self.violate("I2-private-root", op_index, e, g, format!("private root variable `{}` changed", NAME_POOL[i]));
                return;
            }
        }
        // I2-scope: what is visible from the innermost own scope did not change across operations
        // that must not change it (executions, host-side +, lookups, retention)
        let obs = observe(cur);
        if let Some(prev) = &self.last_obs {
            if let Some(i) = first_difference(&obs, prev) {
                let (e, g) = (prev[i].show(), obs[i].show());
                self.violate(
                    "I2-scope",
                    op_index,
                    e,
                    g,
                    format!("lookup of `{}` from the innermost own scope (depth {}) changed although no scope operation happened in between", NAME_POOL[i], self.model.len() - 1),
                );
                return;
            }
        }
        let od = digest_obs(&obs);
        match self.phase {
            Phase::Concurrent => {
                if let Some(r) = self.reference {
                    if let Some(rec) = r.get(op_index) {
                        if rec.obs_digest != 0 && rec.obs_digest != od && !full {
                            self.violate(
                                "I2-scope-vs-alone",
                                op_index,
                                format!("digest {:016x}", rec.obs_digest),
                                format!("digest {:016x}", od),
                                "after this operation the thread sees different bindings from its innermost scope than it saw at the same point when it ran alone".to_string(),
                            );
                            return;
                        }
                    }
                }
            }
            _ => {
                if !full {
                    if let Some(rec) = self.records.get_mut(op_index) {
                        rec.obs_digest = od;
                    }
                }
            }
        }
        self.last_obs = Some(obs);
        // I2 (values held by the model's bindings are the very values bound: they must not change either)
        for (d, scope) in self.model.iter().enumerate() {
            for (name, b) in scope {
                let Some(held) = &b.alias else { continue };
                if snap(held) != b.snap {
                    let (e, g) = (b.snap.show(), snap(held).show());
                    self.violate("I4-bound", op_index, e, g, format!("value bound to `{}` in own scope {} changed after it was bound", name, d));
                    return;
                }
            }
        }
        // I4: every value obtained earlier still is what it was
        let cur_snaps: Vec<Snap> = tls::with(|ts| ts.retained.iter().map(snap).collect());
        if cur_snaps.len() != self.retained_snaps.len() {
            self.violate("harness", op_index, format!("{}", self.retained_snaps.len()), format!("{}", cur_snaps.len()), "retained bookkeeping out of sync".into());
            return;
        }
        for (i, (now, then)) in cur_snaps.iter().zip(self.retained_snaps.iter()).enumerate() {
            if now != then {
                let (e, g) = (then.show(), now.show());
                self.violate("I4", op_index, e, g, format!("retained value #{} changed after it was obtained", i));
                return;
            }
        }
        if full {
            // I3: programs still report the same references
            for (i, p) in self.sh.compiled.programs.iter().enumerate() {
                let r = refs_of(p);
                if r != self.sh.compiled.refs[i] {
                    self.violate("I3-references", op_index, format!("{:?}", self.sh.compiled.refs[i]), format!("{:?}", r), format!("program {} reports different references than right after compilation", i));
                    return;
                }
            }
        }
    }

    fn resolve_src(&mut self, src: &ValSrc, root: &Context) -> Value {
        match src {
            ValSrc::Fresh(spec) => build_value(spec, &[]),
            ValSrc::RootVar(name) => {
                let _g = OracleGuard::enter();
                self.stats.root_alias_defines += 1;
                root.get_variable(name.as_str()).unwrap_or(Value::Null)
            }
            ValSrc::Retained(i) => tls::with(|ts| {
                if ts.retained.is_empty() {
                    Value::Null
                } else {
                    let n = ts.retained.len();
                    ts.retained[*i % n].clone()
                }
            }),
            ValSrc::Handoff(i) => {
                let h = &self.sh.handoff;
                if h.is_empty() {
                    Value::Null
                } else {
                    h[*i % h.len()].clone()
                }
            }
        }
    }

    fn retain(&mut self, v: Value, op_index: usize) {
        let s = snap(&v);
        // Retained values come back as operands (`pick`, host-side `+`, scope definitions): without a
        // bound a long history doubles them until the run only measures the allocator.
        if s.weight() > MAX_RETAINED_WEIGHT {
            return;
        }
        tls::with(|ts| {
            if ts.retained.len() >= MAX_RETAINED {
                let at = op_index % MAX_RETAINED;
                ts.retained[at] = v;
                self.retained_snaps[at] = s;
            } else {
                ts.retained.push(v);
                self.retained_snaps.push(s);
            }
        });
    }

    fn set_in_exec(&self, v: u8) {
        if let Some(s) = &self.sched {
            s.set_in_exec(self.tid, v);
        }
    }

    /// Runs `f` as one recorded/compared operation.
    fn do_recorded(&mut self, op_index: usize, fault: Option<u32>, f: &mut dyn FnMut() -> (Outcome, Option<Value>)) -> (Outcome, Option<Value>) {
        let exec_key = mix(&[self.sh.w.run_seed, self.tid as u64, op_index as u64]);
        let fail_at = match self.phase {
            Phase::Concurrent => self.reference.map(|r| r[op_index].fail_at).unwrap_or(0),
            _ => match fault {
                None => 0,
                Some(frac) => {
                    // counting pass: fault-free, result discarded
                    tls::begin_exec(exec_key, 0);
                    let _ = f();
                    let t = tls::end_exec();
                    if t.boom_calls == 0 {
                        0
                    } else {
                        1 + ((frac as u64 * t.boom_calls as u64) / 1000) as u32
                    }
                }
            },
        };
        if fault.is_some() {
            self.stats.faults_planned += 1;
        }
        let steps0 = tls::with(|ts| ts.steps);
        tls::begin_exec(exec_key, fail_at);
        self.set_in_exec(self.exec_code);
        let (outcome, val) = f();
        self.set_in_exec(0);
        let tel = tls::end_exec();
        let steps = tls::with(|ts| ts.steps) - steps0;
        match &outcome {
            Outcome::Ok(_) => self.stats.outcomes_ok += 1,
            Outcome::Err(_) => self.stats.outcomes_err += 1,
            Outcome::Panic(_) => self.stats.outcomes_panic += 1,
        }
        let _ = tel;
        self.stats.outcome_digests.push(outcome.digest());
        self.sh.event(format!("t{} op{} {:?} -> {:016x} steps={}", self.tid, op_index, self.phase, outcome.digest(), steps));
        match self.phase {
            Phase::Concurrent => {
                if let Some(r) = self.reference {
                    if let Some(exp) = &r[op_index].outcome {
                        if exp != &outcome {
                            let (e, g) = (exp.show(), outcome.show());
                            let d = format!("{} yielded something else under interleaving than when this thread ran alone", self.describe_op(op_index));
                            self.violate("I1", op_index, e, g, d);
                        }
                    }
                }
            }
            _ => {
                self.records[op_index] = OpRecord {
                    outcome: Some(outcome.clone()),
                    fail_at,
                    steps,
                    obs_digest: 0,
                };
            }
        }
        (outcome, val)
    }

    fn describe_op(&self, op_index: usize) -> String {
        match &self.ops[op_index] {
            Op::Exec { prog, target, fault, .. } => format!(
                "execution of program {} `{}` on {:?}{}",
                prog,
                self.sh.w.programs[*prog].src,
                target,
                if fault.is_some() { " (with callback fault)" } else { "" }
            ),
            o => format!("{:?}", o),
        }
    }

    /// Builds a pristine twin of the current context chain and runs `f` on its innermost scope.
    fn with_twin(&self, other_seed: bool, target: Target, f: &mut dyn FnMut(&Context)) {
        let w = self.sh.w;
        if other_seed {
            cel_interpreter::verif::set_hash_seed(w.knobs.hash_seed2);
        }
        match target {
            Target::Root => {
                let tr = build_root(&w.recipe);
                f(&tr.ctx);
            }
            Target::Private => {
                let idx = w.threads[self.tid].private_recipe.unwrap_or(0);
                let tr = build_root(&w.private_recipes[idx.min(w.private_recipes.len().saturating_sub(1))]);
                f(&tr.ctx);
            }
            Target::Inner => {
                let tr = build_root(&w.recipe);
                self.twin_scopes(&tr, 0, other_seed, &tr.ctx, f);
            }
        }
        if other_seed {
            cel_interpreter::verif::set_hash_seed(w.knobs.hash_seed);
        }
    }

    fn twin_scopes(&self, tr: &BuiltRoot, depth: usize, other_seed: bool, parent: &Context, f: &mut dyn FnMut(&Context)) {
        if depth >= self.model.len() {
            f(parent);
            return;
        }
        let mut child = parent.new_inner_scope();
        for (name, b) in &self.model[depth] {
            let v = if other_seed {
                rebuild_from_snap(&b.snap)
            } else {
                match &b.src {
                    ValSrc::Fresh(spec) => build_value(spec, &[]),
                    ValSrc::RootVar(n) => tr.ctx.get_variable(n.as_str()).unwrap_or(Value::Null),
                    ValSrc::Retained(_) | ValSrc::Handoff(_) => match &b.alias {
                        Some(v) => v.clone(),
                        None => rebuild_from_snap(&b.snap),
                    },
                }
            };
            child.add_variable_from_value(name.clone(), v);
        }
        self.twin_scopes(tr, depth + 1, other_seed, &child, f);
    }

    fn run_scope(&mut self, root: &Context, private: Option<&Context>, cur: &mut Context, pos: &mut usize, depth: usize) {
        loop {
            if *pos >= self.ops.len() || self.sh.stopped() {
                return;
            }
            let idx = *pos;
            *pos += 1;
            self.stats.ops += 1;
            let ops: &'w [Op] = self.ops;
            let sh = self.sh;
            let op = &ops[idx];
            match op {
                Op::OpenScope => {
                    if depth < MAX_SCOPE_DEPTH {
                        self.stats.scope_opens += 1;
                        self.model.push(BTreeMap::new());
                        self.last_obs = None;
                        {
                            let mut child = cur.new_inner_scope();
                            self.run_scope(root, private, &mut child, pos, depth + 1);
                        }
                        self.model.pop();
                        self.last_obs = None;
                        if self.sh.w.knobs.check_every_op {
                            self.check_invariants(root, private, cur, idx, false);
                        }
                        continue;
                    }
                }
                Op::CloseScope => {
                    if depth > 0 {
                        return;
                    }
                }
                Op::Define { name, src } => {
                    self.last_obs = None;
                    let v = self.resolve_src(src, root);
                    if matches!(src, ValSrc::Retained(_)) {
                        self.stats.retained_alias_defines += 1;
                    }
                    let s = snap(&v);
                    let keep_alias = (matches!(src, ValSrc::Retained(_) | ValSrc::Handoff(_)) && s.has_multi_key_map())
                        || mix(&[sh.w.run_seed, self.tid as u64, idx as u64, 0xa11a5]) % 4 == 0;
                    let alias = if keep_alias { Some(v.clone()) } else { None };
                    cur.add_variable_from_value(name.clone(), v);
                    self.model.last_mut().unwrap().insert(
                        name.clone(),
                        Binding {
                            src: src.clone(),
                            alias,
                            snap: s,
                        },
                    );
                }
                Op::Exec { prog, target, fault, retain } => {
                    let pi = *prog % sh.compiled.programs.len();
                    // (the pristine copy is moved out for the duration of the call: `self` is borrowed mutably below)
                    let own = if pi < self.own_programs.len() { self.own_programs[pi].take() } else { None };
                    let program = match &own {
                        Some(p) => p,
                        None => &sh.compiled.programs[pi],
                    };
                    let target = if *target == Target::Private && private.is_none() { Target::Inner } else { *target };
                    let ctx: &Context = match target {
                        Target::Inner => cur,
                        Target::Root => root,
                        Target::Private => private.unwrap(),
                    };
                    self.stats.executions += 1;
                    match target {
                        Target::Root => self.stats.exec_on_root += 1,
                        Target::Private => self.stats.exec_on_private += 1,
                        Target::Inner => self.stats.exec_in_scope_depth[depth] += 1,
                    }
                    self.exec_code = match target {
                        Target::Root => 100,
                        Target::Private => 50,
                        Target::Inner => 1 + depth as u8,
                    };
                    let (outcome, val) = self.do_recorded(idx, *fault, &mut || execute_keep(program, ctx));
                    if self.phase == Phase::Sequential && !self.sh.stopped() {
                        self.sequential_oracles(idx, *prog % sh.compiled.programs.len(), target, ctx, &outcome);
                    }
                    if let Some(p) = own {
                        self.own_programs[pi] = Some(p);
                    }
                    if *retain {
                        if let Some(v) = val {
                            self.retain(v, idx);
                        }
                    }
                }
                Op::DropRetained(i) => {
                    tls::with(|ts| {
                        if !ts.retained.is_empty() {
                            let at = *i % ts.retained.len();
                            ts.retained.remove(at);
                            self.retained_snaps.remove(at);
                        }
                    });
                }
                Op::DupRetained(i) => {
                    let src = tls::with(|ts| if ts.retained.is_empty() { None } else { Some(snap(&ts.retained[*i % ts.retained.len()])) });
                    if let Some(sn) = src {
                        if !sn.has_multi_key_map() {
                            let copy = rebuild_from_snap(&sn);
                            self.retain(copy, idx);
                        }
                    }
                }
                Op::MutateRetained(i) => {
                    let new_snap = tls::with(|ts| {
                        if ts.retained.is_empty() {
                            return None;
                        }
                        let at = *i % ts.retained.len();
                        match &mut ts.retained[at] {
                            Value::List(l) => {
                                let v = Arc::make_mut(l);
                                match v.last_mut() {
                                    Some(last) => *last = Value::Int(77),
                                    None => v.push(Value::Int(77)),
                                }
                            }
                            Value::String(st) => Arc::make_mut(st).push('~'),
                            _ => return None,
                        }
                        Some((at, snap(&ts.retained[at])))
                    });
                    if let Some((at, sn)) = new_snap {
                        // the host's own edit: the reference picture of that value moves with it
                        self.retained_snaps[at] = sn;
                        self.stats.host_mutations += 1;
                    }
                }
                Op::HostAdd(i, j, take_left) => {
                    let operands = tls::with(|ts| {
                        if ts.retained.is_empty() {
                            None
                        } else {
                            let n = ts.retained.len();
                            let (ai, bi) = (*i % n, *j % n);
                            let b = ts.retained[bi].clone();
                            let a = if *take_left && ai != bi {
                                // move the value out: the host gives up its only handle
                                let a = ts.retained.remove(ai);
                                Some(a)
                            } else {
                                Some(ts.retained[ai].clone())
                            };
                            a.map(|a| (a, b, ai, *take_left && ai != bi))
                        }
                    });
                    if let Some((a, b, ai, removed)) = operands {
                        if removed {
                            self.retained_snaps.remove(ai);
                        }
                        self.stats.host_adds += 1;
                        let mut ab = Some((a, b));
                        let (_o, val) = self.do_recorded(idx, None, &mut || {
                            let (a, b) = ab.take().expect("host add runs once");
                            match catch_unwind(AssertUnwindSafe(move || a + b)) {
                                Ok(r) => {
                                    let o = Outcome::of(&r);
                                    (o, r.ok())
                                }
                                Err(p) => (Outcome::Panic(panic_text(p)), None),
                            }
                        });
                        if let Some(v) = val {
                            self.retain(v, idx);
                        }
                    }
                }
                Op::Lookup(name) => {
                    // a host-side lookup (with its scheduling points); compared with what the same
                    // lookup gave at the last observation, if nothing was defined since
                    let got = Outcome::of(&cur.get_variable(name.as_str()));
                    if let (Some(prev), Some(i)) = (&self.last_obs, NAME_POOL.iter().position(|n| n == name)) {
                        if prev[i] != got {
                            let e = prev[i].show();
                            self.violate("I2-scope", idx, e, got.show(), format!("host lookup of `{}` at scope depth {} changed although no scope operation happened", name, depth));
                        }
                    }
                }
                Op::Checkpoint => {
                    self.check_invariants(root, private, cur, idx, true);
                }
            }
            if self.sh.w.knobs.check_every_op {
                self.check_invariants(root, private, cur, idx, false);
            }
        }
    }

    /// Engine S: I5a (re-execution, pristine twin under the same hash order) and I5b (other order).
    fn sequential_oracles(&mut self, idx: usize, prog: usize, target: Target, ctx: &Context, outcome: &Outcome) {
        let sh = self.sh;
        let w = sh.w;
        let program = &sh.compiled.programs[prog];
        let fail_at = self.records[idx].fail_at;
        let key = mix(&[w.run_seed, self.tid as u64, idx as u64]);
        // the same context, a second time
        tls::begin_exec(key, fail_at);
        let again = execute(program, ctx);
        let tel_again = tls::end_exec();
        if &again != outcome {
            let d = format!("{}: executing it a second time on the very same context gave a different result", self.describe_op(idx));
            self.violate("I5a-reexec", idx, outcome.show(), again.show(), d);
            return;
        }
        if w.knobs.twin_same {
            let mut got: Option<Outcome> = None;
            // a different buggify pattern on the twin: the result must not depend on which append path ran
            let mut twin_obs: Option<Vec<Outcome>> = None;
            self.with_twin(false, target, &mut |tw| {
                {
                    let _g = OracleGuard::enter();
                    twin_obs = Some(observe(tw));
                }
                tls::begin_exec(key ^ 0x5bd1_e995, fail_at);
                got = Some(execute(program, tw));
                let _ = tls::end_exec();
            });
            self.stats.twin_same_compared += 1;
            let got = got.unwrap();
            // the long-lived context and a freshly built equal one answer lookups alike
            let here = {
                let _g = OracleGuard::enter();
                observe(ctx)
            };
            if let Some(t) = &twin_obs {
                if let Some(i) = first_difference(&here, t) {
                    let d = format!("lookup of `{}`: the long-lived context of this history answers differently from a freshly built context with the same bindings", NAME_POOL[i]);
                    self.violate("I2-twin", idx, t[i].show(), here[i].show(), d);
                    return;
                }
            }
            if &got != outcome {
                let d = format!("{}: a freshly built, equal context (same hash order) gives a different result than the long-lived context of this history", self.describe_op(idx));
                self.violate("I5a-twin", idx, got.show(), outcome.show(), d);
                return;
            }
            // ... and so does a freshly compiled copy of the program ("executing a program never changes the
            // program": if the long-lived Program object no longer behaves like a pristine compile of the
            // same source, it was changed — state kept in the Program is shared by every context, so no
            // twin *context* can reveal it)
            if mix(&[key, 0x9906]) % 2 == 0 {
                if let Some(fresh_program) = sh.compiled.fresh(prog) {
                    let mut got2: Option<Outcome> = None;
                    self.with_twin(false, target, &mut |tw| {
                        tls::begin_exec(key ^ 0x0051_7e00, fail_at);
                        got2 = Some(execute(&fresh_program, tw));
                        let _ = tls::end_exec();
                    });
                    self.stats.twin_fresh_program_compared += 1;
                    if let Some(g) = got2 {
                        if &g != outcome {
                            let d = format!("{}: a pristine copy of the same program, on a freshly built equal context, gives a different result than the long-lived program object", self.describe_op(idx));
                            self.violate("I3-fresh-program", idx, g.show(), outcome.show(), d);
                            return;
                        }
                    }
                }
            }
            // ... and so does a brand-new OS thread that has no history at all (per-thread state such as a
            // `thread_local!` memo is stable under immediate re-execution on the same thread, so only a
            // thread without a past can tell that the past mattered)
            if mix(&[key, 0xf4e5]) % 2 == 0 {
                // the fresh thread holds deep copies of this thread's retained values (other buffers, other
                // addresses) — equal values, so equal results — unless a copy could iterate a map differently
                let held: Vec<(Value, Snap)> = tls::with(|ts| ts.retained.iter().map(|v| (v.clone(), snap(v))).collect());
                // (rebuilt outside the TLS borrow: building a map goes through the interpreter and its hooks)
                let retained: Vec<Value> = held.into_iter().map(|(v, sn)| if sn.has_multi_key_map() { v } else { rebuild_from_snap(&sn) }).collect();
                let buggify = w.knobs.buggify_milli;
                let tid = self.tid;
                let me: &Runner = &*self;
                let fresh: Option<Outcome> = std::thread::scope(|sc| {
                    sc.spawn(move || {
                        tls::activate(tid, None, 0, buggify);
                        tls::with(|ts| ts.retained = retained);
                        let mut got = None;
                        me.with_twin(false, target, &mut |tw| {
                            tls::begin_exec(key ^ 0x0f7e_5a11, fail_at);
                            got = Some(execute(program, tw));
                            let _ = tls::end_exec();
                        });
                        let _ = tls::deactivate();
                        got
                    })
                    .join()
                    .ok()
                    .flatten()
                });
                self.stats.twin_fresh_thread_compared += 1;
                if let Some(f) = fresh {
                    if &f != outcome {
                        let d = format!("{}: a thread without any history, on a freshly built equal context, gets a different result than this thread gets after its history", self.describe_op(idx));
                        self.violate("I5a-fresh-thread", idx, f.show(), outcome.show(), d);
                        return;
                    }
                }
            }
        }
        if w.knobs.twin_other {
            let mut got: Option<Outcome> = None;
            let mut multi = false;
            self.with_twin(true, target, &mut |tw| {
                tls::begin_exec(key ^ 0x1234_5678, fail_at);
                got = Some(execute(program, tw));
                multi = tls::end_exec().map_iter_multi;
            });
            let got = got.unwrap();
            let sensitive = w.programs[prog].order_sensitive || tel_again.map_iter_multi || multi || got.text_mentions_map() || outcome.text_mentions_map();
            if sensitive {
                self.stats.skipped_order_sensitive += 1;
            } else {
                self.stats.twin_other_compared += 1;
                if &got != outcome {
                    let d = format!("{}: an equal context whose maps iterate in another order gives a different result although the program does not observe map order", self.describe_op(idx));
                    self.violate("I5b", idx, got.show(), outcome.show(), d);
                }
            }
        }
    }
}

struct ThreadOutput {
    records: Vec<OpRecord>,
    stats: RunStats,
    probes: Probes,
    steps: u64,
    edges: u64,
}

/// Runs one thread's op list. `root` is the (shared or pristine) root context.
fn run_thread<'a, 'w>(
    sh: &'a Shared<'w>,
    tid: usize,
    phase: Phase,
    root: &Context,
    root_expect: &'a [Outcome],
    reference: Option<&'a [OpRecord]>,
    sched: Option<Arc<Sched>>,
    enabled_sites: u32,
) -> ThreadOutput {
    let w = sh.w;
    let plan = &w.threads[tid];
    tls::activate(tid, sched.clone(), enabled_sites, w.knobs.buggify_milli);
    if let Some(s) = &sched {
        let gap = s.wait_start(tid);
        tls::set_edge_gap(gap);
    }
    let private: Option<BuiltRoot> = plan
        .private_recipe
        .and_then(|i| w.private_recipes.get(i))
        .map(build_root);
    let n_ops = plan.ops.len();
    let body = catch_unwind(AssertUnwindSafe(|| {
        let mut runner = Runner {
            sh,
            tid,
            phase,
            ops: &plan.ops,
            model: vec![BTreeMap::new()],
            root_expect,
            private_expect: private.as_ref().map(|p| p.expect.as_slice()),
            last_obs: None,
            retained_snaps: Vec::new(),
            records: if phase == Phase::Concurrent {
                Vec::new()
            } else {
                vec![
                    OpRecord {
                        outcome: None,
                        fail_at: 0,
                        steps: 0,
                        obs_digest: 0
                    };
                    n_ops
                ]
            },
            reference,
            stats: RunStats::default(),
            sched: sched.clone(),
            exec_code: 1,
            own_programs: if phase == Phase::Solo { (0..sh.compiled.programs.len()).map(|i| sh.compiled.fresh(i)).collect() } else { Vec::new() },
        };
        let mut base = root.new_inner_scope();
        let mut pos = 0usize;
        let pctx = private.as_ref().map(|p| &p.ctx);
        while pos < n_ops && !sh.stopped() {
            runner.run_scope(root, pctx, &mut base, &mut pos, 0);
        }
        runner.check_invariants(root, pctx, &base, n_ops.saturating_sub(1), true);
        (runner.records, runner.stats)
    }));
    let out = match body {
        Ok((records, stats)) => ThreadOutput {
            records,
            stats,
            probes: Probes::default(),
            steps: 0,
            edges: 0,
        },
        Err(p) => {
            sh.report(ViolationInfo {
                invariant: "I4-unreadable".into(),
                phase: phase.name().into(),
                thread: tid,
                op_index: 0,
                expected: "every value obtained from the library can be inspected (compared, formatted, cloned, dropped)".into(),
                got: panic_text(p),
                detail: "inspecting a value or the context outside of any execution panicked: in a memory-safe tree these are pure traversals that cannot panic (never observed on the unchanged tree), so a buffer reachable from a previously obtained value or from the context was corrupted".into(),
            });
            if let Some(s) = &sched {
                s.release_all();
            }
            ThreadOutput {
                records: Vec::new(),
                stats: RunStats::default(),
                probes: Probes::default(),
                steps: 0,
                edges: 0,
            }
        }
    };
    if let Some(s) = &sched {
        s.finish(tid);
    }
    let edges = tls::edges_seen();
    let (probes, steps) = tls::deactivate();
    ThreadOutput { probes, steps, edges, ..out }
}

pub struct RunOptions {
    /// replay this explicit schedule instead of drawing from the workload's policy
    pub explicit_schedule: Option<Vec<u8>>,
    /// engine M / native smoke: no baton, threads run freely (Miri schedules)
    pub free_run: bool,
    /// take programs from imported ASTs instead of the parser
    pub use_ast: bool,
}

impl Default for RunOptions {
    fn default() -> Self {
        RunOptions {
            explicit_schedule: None,
            free_run: false,
            use_ast: false,
        }
    }
}

fn merge(into: &mut RunStats, from: &RunStats) {
    into.executions += from.executions;
    into.ops += from.ops;
    into.twin_same_compared += from.twin_same_compared;
    into.twin_other_compared += from.twin_other_compared;
    into.twin_fresh_thread_compared += from.twin_fresh_thread_compared;
    into.twin_fresh_program_compared += from.twin_fresh_program_compared;
    into.skipped_order_sensitive += from.skipped_order_sensitive;
    into.faults_planned += from.faults_planned;
    into.outcomes_ok += from.outcomes_ok;
    into.outcomes_err += from.outcomes_err;
    into.outcomes_panic += from.outcomes_panic;
    into.exec_on_root += from.exec_on_root;
    into.exec_on_private += from.exec_on_private;
    for i in 0..=MAX_SCOPE_DEPTH {
        into.exec_in_scope_depth[i] += from.exec_in_scope_depth[i];
    }
    into.host_adds += from.host_adds;
    into.host_mutations += from.host_mutations;
    into.retained_alias_defines += from.retained_alias_defines;
    into.root_alias_defines += from.root_alias_defines;
    into.scope_opens += from.scope_opens;
    into.invariant_checks += from.invariant_checks;
}

/// `run_workload_inner` with the main thread's own oracle code (prologue, final checks, epilogue) guarded
/// the same way as the simulated threads' (see `I4-unreadable`).
pub fn run_workload(w: &Workload, opts: &RunOptions) -> RunResult {
    match catch_unwind(AssertUnwindSafe(|| run_workload_inner(w, opts))) {
        Ok(r) => r,
        Err(p) => RunResult {
            violation: Some(ViolationInfo {
                invariant: "I4-unreadable".into(),
                phase: "main-thread oracle".into(),
                thread: 0,
                op_index: 0,
                expected: "every value obtained from the library can be inspected (compared, formatted, cloned, dropped)".into(),
                got: panic_text(p),
                detail: "inspecting the context or a result on the main thread panicked; in a memory-safe tree these are pure traversals that cannot panic".into(),
            }),
            stats: RunStats::default(),
            trace: vec![],
            event_log: vec![],
            harness_error: None,
        },
    }
}

fn run_workload_inner(w: &Workload, opts: &RunOptions) -> RunResult {
    tls::install_hooks();
    cel_interpreter::verif::set_hash_seed(w.knobs.hash_seed);
    let compiled = match compile_all(w, opts.use_ast) {
        Ok(c) => c,
        Err(e) => {
            return RunResult {
                violation: None,
                stats: RunStats::default(),
                trace: vec![],
                event_log: vec![],
                harness_error: Some(e),
            }
        }
    };
    let mut stats = RunStats::default();
    let mut trace: Vec<u8> = vec![];
    let n = w.threads.len();

    // Prologue: what does each program yield on a pristine root, before any history exists? The Ok
    // results stay alive on the main thread for the whole run ("handoff" values).
    tls::activate(usize::MAX >> 1, None, 0, 0);
    let mut handoff: Vec<Value> = Vec::new();
    let prologue: Vec<Outcome> = {
        let tr = build_root(&w.recipe);
        compiled
            .programs
            .iter()
            .enumerate()
            .map(|(i, p)| {
                tls::begin_exec(mix(&[w.run_seed, 0xface, i as u64]), 0);
                let (o, v) = execute_keep(p, &tr.ctx);
                if let (Outcome::Ok(s), Some(v)) = (&o, v) {
                    if s.weight() <= MAX_RETAINED_WEIGHT && handoff.len() < MAX_RETAINED {
                        handoff.push(v);
                    }
                }
                o
            })
            .collect()
    };
    let handoff_snaps: Vec<Snap> = handoff.iter().map(snap).collect();
    let _ = tls::deactivate();
    let sh = Shared {
        w,
        compiled: &compiled,
        stop: AtomicBool::new(false),
        violation: Mutex::new(None),
        events: Mutex::new(Vec::new()),
        handoff,
        use_ast: opts.use_ast,
        log_events: !opts.free_run,
    };

    if w.engine == Engine::S {
        // one long-lived context, one thread, twins per execution
        let lr = build_root(&w.recipe);
        let out = std::thread::scope(|s| {
            s.spawn(|| run_thread(&sh, 0, Phase::Sequential, &lr.ctx, &lr.expect, None, None, 0))
                .join()
                .expect("sequential thread")
        });
        merge(&mut stats, &out.stats);
        stats.outcome_digests = out.stats.outcome_digests.clone();
        stats.probes.add(&out.probes);
        stats.solo_steps = out.steps;
        // final I2 on the long-lived root from the main thread
        final_root_check(&sh, &lr, "sequential-history");
    } else {
        // Phase R: every thread alone on its own pristine root
        let mut reference: Vec<Vec<OpRecord>> = Vec::with_capacity(n);
        for t in 0..n {
            if sh.stopped() {
                break;
            }
            let tr = build_root(&w.recipe);
            let out = std::thread::scope(|s| {
                s.spawn(|| run_thread(&sh, t, Phase::Solo, &tr.ctx, &tr.expect, None, None, 0))
                    .join()
                    .expect("solo thread")
            });
            merge(&mut stats, &out.stats);
            stats.probes.add(&out.probes);
            stats.solo_steps += out.steps;
            stats.solo_edges += out.edges;
            final_root_check(&sh, &tr, "solo-reference");
            reference.push(out.records);
        }
        if !sh.stopped() {
            // Phase C: all threads against one shared root
            let shared_root = build_root(&w.recipe);
            let max_decisions = 4 * (stats.solo_steps + stats.solo_edges) + 1000 + 4 * n as u64;
            let sched = if opts.free_run {
                None
            } else {
                let source = match &opts.explicit_schedule {
                    Some(t) => Source::Explicit {
                        trace: t.clone(),
                        enabled_sites: w.sched.enabled_sites,
                        fine_gap: if tls::fine_build() { w.sched.fine_gap } else { 0 },
                        seed: w.sched.seed,
                    },
                    None => {
                        let mut spec = w.sched.clone();
                        if !tls::fine_build() {
                            spec.fine_gap = 0;
                        }
                        if let Policy::Pct { depth, horizon: 0 } = spec.policy {
                            // horizon not fixed by the workload: the solo step count (deterministic)
                            // decisions to expect: one per hook point, plus one per `fine_gap` edges
                            let edge_decisions = if spec.fine_gap > 0 { stats.solo_edges / spec.fine_gap as u64 } else { 0 };
                            spec.policy = Policy::Pct {
                                depth,
                                horizon: (stats.solo_steps + edge_decisions).max(1),
                            };
                        }
                        Source::Policy(spec)
                    }
                };
                Some(Arc::new(Sched::new(n, source, max_decisions)))
            };
            #[cfg(all(target_os = "linux", target_arch = "x86_64", not(miri)))]
            crate::sched::publish_active(sched.as_ref());
            let barrier = std::sync::Barrier::new(n);
            let outs: Vec<ThreadOutput> = std::thread::scope(|s| {
                let mut handles = Vec::with_capacity(n);
                for t in 0..n {
                    let sh = &sh;
                    let root = &shared_root;
                    let reference = &reference;
                    let sched = sched.clone();
                    let barrier = &barrier;
                    let enabled = w.sched.enabled_sites;
                    let free = opts.free_run;
                    handles.push(s.spawn(move || {
                        if free {
                            barrier.wait();
                        }
                        run_thread(sh, t, Phase::Concurrent, &root.ctx, &root.expect, Some(&reference[t]), sched, enabled)
                    }));
                }
                if let Some(sc) = &sched {
                    sc.start();
                }
                handles.into_iter().map(|h| h.join().expect("simulated thread")).collect()
            });
            #[cfg(all(target_os = "linux", target_arch = "x86_64", not(miri)))]
            crate::sched::publish_active(None);
            for o in &outs {
                merge(&mut stats, &o.stats);
                stats.probes.add(&o.probes);
                stats.conc_steps += o.steps;
                stats.conc_edges += o.edges;
                stats.outcome_digests.extend(o.stats.outcome_digests.iter().copied());
            }
            if let Some(sc) = &sched {
                stats.sched = sc.stats();
                trace = sc.take_trace();
                if stats.sched.overrun {
                    sh.report(ViolationInfo {
                        invariant: "I6".into(),
                        phase: "concurrent".into(),
                        thread: 0,
                        op_index: 0,
                        expected: format!("all threads finish within {} scheduling decisions (4 x {} solo steps + slack)", max_decisions, stats.solo_steps),
                        got: format!("{} decisions and still running", stats.sched.decisions),
                        detail: "bounded progress exceeded under interleaving".into(),
                    });
                }
            }
            final_root_check(&sh, &shared_root, "concurrent");
        }
    }

    // I4 for the values the main thread held throughout
    if !sh.stopped() {
        for (i, (v, then)) in sh.handoff.iter().zip(handoff_snaps.iter()).enumerate() {
            let now = snap(v);
            if &now != then {
                sh.report(ViolationInfo {
                    invariant: "I4".into(),
                    phase: "epilogue".into(),
                    thread: 0,
                    op_index: 0,
                    expected: then.show(),
                    got: now.show(),
                    detail: format!("value #{} that the main thread obtained before the run (and other threads bound clones of) changed", i),
                });
                break;
            }
        }
    }
    // Epilogue: I3 — programs unchanged by the whole history
    if !sh.stopped() {
        tls::activate(usize::MAX >> 1, None, 0, 0);
        let tr = build_root(&w.recipe);
        for (i, p) in compiled.programs.iter().enumerate() {
            let r = refs_of(p);
            if r != compiled.refs[i] {
                sh.report(ViolationInfo {
                    invariant: "I3-references".into(),
                    phase: "epilogue".into(),
                    thread: 0,
                    op_index: 0,
                    expected: format!("{:?}", compiled.refs[i]),
                    got: format!("{:?}", r),
                    detail: format!("program {} `{}` reports different references after the run", i, w.programs[i].src),
                });
                break;
            }
            tls::begin_exec(mix(&[w.run_seed, 0xface, i as u64]), 0);
            let o = execute(p, &tr.ctx);
            if o != prologue[i] {
                sh.report(ViolationInfo {
                    invariant: "I3-reexec".into(),
                    phase: "epilogue".into(),
                    thread: 0,
                    op_index: 0,
                    expected: prologue[i].show(),
                    got: o.show(),
                    detail: format!("program {} `{}` yields something else on a pristine context after the run than before it", i, w.programs[i].src),
                });
                break;
            }
        }
        let _ = tls::deactivate();
    }

    stats.took_both_append_paths = (stats.probes.append_list_unique > 0 || stats.probes.append_str_unique > 0)
        && (stats.probes.append_list_shared > 0 || stats.probes.append_str_shared > 0 || stats.probes.buggify_fired > 0);
    let mut words: Vec<u64> = vec![stats.sched.decisions, stats.sched.switches, stats.sched.switch_digest, stats.solo_steps, stats.conc_steps];
    words.push(crate::util::digest_words(&trace.iter().map(|x| *x as u64).collect::<Vec<_>>()));
    words.extend(stats.outcome_digests.iter().copied());
    words.extend(stats.probes.site_hits.iter().copied());
    stats.run_digest = crate::util::digest_words(&words);
    let violation = sh.violation.lock().unwrap().clone();
    let event_log = sh.events.lock().unwrap().clone();
    RunResult {
        violation,
        stats,
        trace,
        event_log,
        harness_error: None,
    }
}

fn final_root_check(sh: &Shared, root: &BuiltRoot, phase: &str) {
    if sh.stopped() {
        return;
    }
    let obs = observe(&root.ctx);
    if let Some(i) = first_difference(&obs, &root.expect) {
        sh.report(ViolationInfo {
            invariant: "I2-root".into(),
            phase: phase.into(),
            thread: 0,
            op_index: 0,
            expected: root.expect[i].show(),
            got: obs[i].show(),
            detail: format!("after the phase, root variable `{}` no longer reads as it did when the context was built", NAME_POOL[i]),
        });
    }
}
