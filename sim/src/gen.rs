//! Workload generator: everything about a run (root recipe, programs, per-thread op lists,
//! fault plans, knobs, scheduler) is drawn from one xoshiro stream seeded by `run_seed`.
use crate::rng::Rng;
use crate::workload::*;

#[derive(Clone, Copy, PartialEq, Eq, Debug)]
pub enum Ty {
    Int,
    UInt,
    Double,
    Str,
    Bool,
    Bytes,
    ListInt,
    ListStr,
    ListList,
    MapStrInt,
    MapIntStr,
    MapStrList,
    Ts,
    Dur,
    Dyn,
}

/// Fixed name → type table: root variables and scope definitions are type-preserving, so the typed
/// program generator stays meaningful under shadowing by host-defined scopes.
pub const NAMES: &[(&str, Ty)] = &[
    ("l", Ty::ListInt),
    ("l2", Ty::ListInt),
    ("e", Ty::ListInt),
    ("ls", Ty::ListStr),
    ("ll", Ty::ListList),
    ("s", Ty::Str),
    ("t", Ty::Str),
    ("k", Ty::Str),
    ("m", Ty::MapStrInt),
    ("mi", Ty::MapIntStr),
    ("mm", Ty::MapStrList),
    ("i", Ty::Int),
    ("n", Ty::Int),
    ("x", Ty::Int),
    ("size", Ty::Int),
    ("b", Ty::Bool),
    ("by", Ty::Bytes),
    ("u", Ty::UInt),
    ("d", Ty::Double),
    ("ts", Ty::Ts),
    ("dur", Ty::Dur),
];

const ITER_VARS: &[&str] = &["x", "k", "i", "l", "s", "size", "v", "x"];
const STRS: &[&str] = &["", "a", "b", "ab", "abc", "é", "日本", "a b", "zz", "q"];
const MAP_KEYS: &[&str] = &["a", "b", "c", "d", "e"];

#[derive(Clone, Debug)]
pub struct Limits {
    pub max_threads: usize,
    pub max_execs_per_thread: u64,
    pub max_total_execs: u64,
    pub max_programs: usize,
    pub max_prog_depth: u32,
    pub max_history: u64,
}

impl Limits {
    pub fn quick(engine: Engine) -> Limits {
        match engine {
            Engine::S => Limits {
                max_threads: 1,
                max_execs_per_thread: 50,
                max_total_execs: 50,
                max_programs: 12,
                max_prog_depth: 6,
                max_history: 50,
            },
            Engine::B => Limits {
                max_threads: 12,
                max_execs_per_thread: 30,
                max_total_execs: 120,
                max_programs: 12,
                max_prog_depth: 5,
                max_history: 30,
            },
            Engine::M => Limits {
                max_threads: 3,
                max_execs_per_thread: 6,
                max_total_execs: 14,
                max_programs: 5,
                max_prog_depth: 3,
                max_history: 6,
            },
        }
    }
    pub fn thorough(engine: Engine) -> Limits {
        match engine {
            Engine::S => Limits {
                max_threads: 1,
                max_execs_per_thread: 200,
                max_total_execs: 200,
                max_programs: 32,
                max_prog_depth: 6,
                max_history: 200,
            },
            Engine::B => Limits {
                max_threads: 16,
                max_execs_per_thread: 200,
                max_total_execs: 3200,
                max_programs: 32,
                max_prog_depth: 6,
                max_history: 200,
            },
            Engine::M => Limits {
                max_threads: 4,
                max_execs_per_thread: 10,
                max_total_execs: 30,
                max_programs: 8,
                max_prog_depth: 4,
                max_history: 10,
            },
        }
    }
}

fn f64spec(f: f64) -> VSpec {
    VSpec::Float(f.to_bits())
}

fn gen_int(r: &mut Rng) -> i64 {
    match r.below(20) {
        0 => i64::MAX,
        1 => i64::MIN,
        2 => 1 << 40,
        _ => r.range(-3, 9),
    }
}

fn gen_str(r: &mut Rng) -> String {
    if r.chance(1, 12) {
        // long strings (beyond small-buffer sizes)
        let unit = *r.pick(&["ab", "é", "xyz ", "0123456789"]);
        return unit.repeat(r.range(8, 40) as usize);
    }
    r.pick(STRS).to_string()
}

fn gen_list_int(r: &mut Rng) -> VSpec {
    // mostly short; now and then long enough to cross allocation-size thresholds (16, 32, 64 elements)
    let n = if r.chance(1, 12) { r.range(15, 70) as u64 } else { r.below(9) };
    VSpec::List((0..n).map(|_| VSpec::Int(r.range(-3, 9))).collect())
}

pub fn gen_value(r: &mut Rng, ty: Ty, n_shared: usize) -> VSpec {
    match ty {
        Ty::Int => VSpec::Int(gen_int(r)),
        Ty::UInt => VSpec::UInt(if r.chance(1, 12) { u64::MAX } else { r.below(12) }),
        Ty::Double => match r.below(8) {
            0 => f64spec(f64::NAN),
            1 => f64spec(f64::INFINITY),
            2 => f64spec(-0.0),
            _ => f64spec(r.range(-20, 20) as f64 / 4.0),
        },
        Ty::Str => VSpec::Str(gen_str(r)),
        Ty::Bool => VSpec::Bool(r.chance(1, 2)),
        Ty::Bytes => {
            let n = r.below(5);
            VSpec::Bytes((0..n).map(|_| r.below(256) as u8).collect())
        }
        Ty::ListInt => gen_list_int(r),
        Ty::ListStr => {
            let n = r.below(6);
            VSpec::List((0..n).map(|_| VSpec::Str(gen_str(r))).collect())
        }
        Ty::ListList => {
            let n = r.below(5);
            VSpec::List(
                (0..n)
                    .map(|_| {
                        if n_shared > 0 && r.chance(1, 3) {
                            VSpec::Shared(r.usize(n_shared))
                        } else {
                            gen_list_int(r)
                        }
                    })
                    .collect(),
            )
        }
        Ty::MapStrInt => {
            let n = r.below(6) as usize;
            let mut keys: Vec<&str> = MAP_KEYS.to_vec();
            r.shuffle(&mut keys);
            VSpec::Map(keys[..n.min(keys.len())].iter().map(|k| (KSpec::Str(k.to_string()), VSpec::Int(r.range(-3, 9)))).collect())
        }
        Ty::MapIntStr => {
            let n = r.below(5);
            let mut es = vec![];
            let mut seen = vec![];
            for _ in 0..n {
                let k = r.range(0, 6);
                if seen.contains(&k) {
                    continue;
                }
                seen.push(k);
                let key = if r.chance(1, 4) { KSpec::UInt(k as u64) } else { KSpec::Int(k) };
                es.push((key, VSpec::Str(gen_str(r))));
            }
            VSpec::Map(es)
        }
        Ty::MapStrList => {
            let n = r.below(4) as usize;
            let mut keys: Vec<&str> = MAP_KEYS.to_vec();
            r.shuffle(&mut keys);
            VSpec::Map(
                keys[..n]
                    .iter()
                    .map(|k| {
                        let v = if n_shared > 0 && r.chance(1, 3) { VSpec::Shared(r.usize(n_shared)) } else { gen_list_int(r) };
                        (KSpec::Str(k.to_string()), v)
                    })
                    .collect(),
            )
        }
        Ty::Ts => VSpec::Ts(r.range(0, 2_000_000_000), (r.below(1000) * 1_000_000) as u32, (r.range(-12, 14) * 3600) as i32),
        Ty::Dur => VSpec::Dur(r.range(-5_000_000_000, 5_000_000_000)),
        Ty::Dyn => VSpec::Null,
    }
}

pub fn gen_recipe(r: &mut Rng) -> Recipe {
    let n_shared = r.below(3) as usize;
    let shared: Vec<VSpec> = (0..n_shared).map(|_| gen_list_int(r)).collect();
    let n_vars = r.range(4, 10) as usize;
    let mut idx: Vec<usize> = (0..NAMES.len()).collect();
    r.shuffle(&mut idx);
    // always have something to concatenate
    let mut chosen: Vec<usize> = vec![0, 5];
    for i in idx {
        if chosen.len() >= n_vars {
            break;
        }
        if !chosen.contains(&i) {
            chosen.push(i);
        }
    }
    chosen.sort();
    let mut vars = vec![];
    for i in chosen {
        let (name, ty) = NAMES[i];
        let v = if ty == Ty::ListInt && n_shared > 0 && r.chance(1, 4) {
            VSpec::Shared(r.usize(n_shared))
        } else {
            gen_value(r, ty, n_shared)
        };
        vars.push((name.to_string(), v));
    }
    // near-duplicate collections: `l2` as long as `l`, equal or differing in one element (distinct buffers)
    if r.chance(1, 2) {
        let l = vars.iter().find(|(n, _)| n == "l").map(|(_, v)| v.clone());
        if let Some(VSpec::List(mut xs)) = l {
            if !xs.is_empty() && r.chance(1, 2) {
                let at = r.usize(xs.len());
                xs[at] = VSpec::Int(r.range(10, 99));
            }
            if let Some(slot) = vars.iter_mut().find(|(n, _)| n == "l2") {
                slot.1 = VSpec::List(xs);
            }
        }
    }
    Recipe {
        shared,
        vars,
        override_builtin: r.chance(1, 10),
    }
}

struct PG<'r> {
    r: &'r mut Rng,
    /// names in scope, innermost last
    env: Vec<(String, Ty)>,
    call_depth: u32,
    macro_depth: u32,
    order_sensitive: bool,
    stub_rate: u64,
    ill_typed_rate: u64,
    nodes: usize,
    /// swarm style: built-ins this workload hammers (with varied arguments), empty = none in particular
    focus: Vec<&'static str>,
}

/// Built-ins a workload may focus on (see `PG::focus_expr`).
pub const FOCUSABLE: &[&str] = &[
    "getFullYear", "getMonth", "getDate", "getDayOfMonth", "getDayOfWeek", "getDayOfYear", "getHours", "getMinutes", "getSeconds", "getMilliseconds",
    "int", "uint", "double", "string", "bytes", "max", "min", "contains_bytes", "contains_map", "dur_cmp", "ts_cmp", "matches", "startsWith", "endsWith", "timestamp", "duration", "var_eq", "var_eq",
];

fn lit_int(r: &mut Rng) -> G {
    G::Lit(format!("{}", r.range(0, 5)))
}

fn lit_str(r: &mut Rng) -> G {
    // mostly short; now and then literals of realistic length (interning and small-string paths
    // behave differently above 8, 15 and 23 bytes)
    let s = if r.chance(1, 6) {
        *r.pick(&["customer-id/", "Hello, dear ", "abcdefgh", "0123456789abcdef", "a fairly long literal, more than 23 bytes"])
    } else {
        *r.pick(&["", "a", "b", "ab", "c", "zz"])
    };
    G::Lit(format!("'{}'", s))
}

impl<'r> PG<'r> {
    fn vars_of(&self, ty: Ty) -> Vec<String> {
        // innermost binding of each name decides its type
        let mut out = vec![];
        let mut seen: Vec<&str> = vec![];
        for (n, t) in self.env.iter().rev() {
            if seen.contains(&n.as_str()) {
                continue;
            }
            seen.push(n.as_str());
            if *t == ty {
                out.push(n.clone());
            }
        }
        out
    }

    fn var_or(&mut self, ty: Ty, fallback: G) -> G {
        let vs = self.vars_of(ty);
        if vs.is_empty() || self.r.chance(1, 25) {
            // occasionally reference a name that may be undeclared
            if self.r.chance(1, 12) {
                return G::Var("zz".into());
            }
            fallback
        } else {
            G::Var(self.r.pick(&vs).clone())
        }
    }

    fn stub(&mut self, inner: G) -> G {
        let in_body = self.macro_depth > 0;
        let name = match self.r.below(10) {
            0..=3 => {
                if in_body {
                    // announce the innermost iteration variable
                    let var = self.env.last().map(|(n, _)| n.clone()).unwrap_or_else(|| "x".into());
                    return G::Call("yc".into(), None, vec![inner, G::Lit(format!("'{}'", var))]);
                }
                "y"
            }
            4..=6 => {
                if in_body {
                    "boomc"
                } else {
                    "boom"
                }
            }
            _ => "log",
        };
        G::Call(name.into(), None, vec![inner])
    }

    fn iter_var(&mut self) -> String {
        self.r.pick(ITER_VARS).to_string()
    }

    fn with_var<T>(&mut self, var: &str, ty: Ty, f: impl FnOnce(&mut Self) -> T) -> T {
        self.env.push((var.to_string(), ty));
        self.macro_depth += 1;
        let out = f(self);
        self.macro_depth -= 1;
        self.env.pop();
        out
    }

    fn elem_ty(ty: Ty) -> Ty {
        match ty {
            Ty::ListInt => Ty::Int,
            Ty::ListStr => Ty::Str,
            Ty::ListList => Ty::ListInt,
            Ty::MapStrInt | Ty::MapStrList => Ty::Str,
            Ty::MapIntStr => Ty::Int,
            _ => Ty::Dyn,
        }
    }

    fn any_ty(&mut self) -> Ty {
        *self.r.pick(&[Ty::Int, Ty::Str, Ty::Bool, Ty::ListInt, Ty::ListStr, Ty::ListList, Ty::MapStrInt, Ty::UInt, Ty::Double, Ty::Bytes, Ty::MapIntStr, Ty::MapStrList, Ty::Ts, Ty::Dur])
    }

    fn gen(&mut self, ty: Ty, depth: u32) -> G {
        self.nodes += 1;
        if self.ill_typed_rate > 0 && self.r.chance(self.ill_typed_rate, 1000) {
            self.order_sensitive = true;
            let t = self.any_ty();
            return self.gen_typed(t, depth);
        }
        let g = self.gen_typed(ty, depth);
        // sprinkle stubs at random depths (1-arg calls evaluate their argument twice: bound nesting)
        if self.call_depth < 3 && self.r.chance(self.stub_rate, 1000) {
            self.stub(g)
        } else {
            g
        }
    }

    fn calling<T>(&mut self, f: impl FnOnce(&mut Self) -> T) -> T {
        self.call_depth += 1;
        let out = f(self);
        self.call_depth -= 1;
        out
    }

    fn list_range(&mut self, depth: u32) -> (G, Ty) {
        // a list- or map-typed range for a macro; maps make the program order-sensitive
        let choice = self.r.below(20);
        let ty = match choice {
            0..=8 => Ty::ListInt,
            9..=11 => Ty::ListStr,
            12..=14 => Ty::ListList,
            15..=16 => Ty::MapStrInt,
            17 => Ty::MapIntStr,
            18 => Ty::MapStrList,
            _ => Ty::ListInt,
        };
        if matches!(ty, Ty::MapStrInt | Ty::MapIntStr | Ty::MapStrList) {
            self.order_sensitive = true;
        }
        (self.gen(ty, depth), ty)
    }

    /// The less common built-ins (conversions, timestamp/duration functions, bytes, multi-argument
    /// max/min, contains on maps and bytes): a change under test may hang state off any of them.
    /// One call of the focused built-in `f` with arguments varied over a small pool, and its type.
    fn focus_expr(&mut self, f: &str, depth: u32) -> (G, Ty) {
        let d = depth.saturating_sub(1);
        let call = |name: &str, recv: Option<G>, args: Vec<G>| G::Call(name.into(), recv.map(Box::new), args);
        match f {
            "int" => (call("int", None, vec![G::Lit((*self.r.pick(&["'12'", "'-3'", "'13'", "2.5", "2.4", "7u", "8u", "'x'", "12"])).into())]), Ty::Int),
            "uint" => (G::Bin("==".into(), Box::new(call("uint", None, vec![G::Lit((*self.r.pick(&["'12'", "'13'", "2.5", "7", "8", "'x'", "-1"])).into())])), Box::new(G::Lit("7u".into()))), Ty::Bool),
            "double" => (G::Bin(">".into(), Box::new(call("double", None, vec![G::Lit((*self.r.pick(&["'1.5'", "'2.5'", "3", "4", "7u", "'x'", "'NaN'"])).into())])), Box::new(G::Lit("2.0".into()))), Ty::Bool),
            "string" => {
                let t = *self.r.pick(&[Ty::Ts, Ty::Dur, Ty::Double, Ty::Bytes, Ty::UInt, Ty::Int, Ty::Int]);
                let a = self.calling(|s| s.gen(t, d.min(1)));
                (call("string", None, vec![a]), Ty::Str)
            }
            "bytes" => (call("size", None, vec![call("bytes", None, vec![self.calling(|s| s.gen(Ty::Str, d.min(1)))])]), Ty::Int),
            "max" | "min" => {
                let n = self.r.range(2, 4);
                let args: Vec<G> = (0..n).map(|_| self.gen(Ty::Int, 0)).collect();
                if self.r.chance(1, 3) {
                    (call(f, None, vec![self.calling(|s| s.gen(Ty::ListInt, d.min(1)))]), Ty::Int)
                } else {
                    (call(f, None, args), Ty::Int)
                }
            }
            "contains_bytes" => {
                let lit = G::Lit((*self.r.pick(&["b'abc'", "b'abd'", "b''"])).into());
                let recv = self.var_or(Ty::Bytes, lit);
                let arg = G::Lit((*self.r.pick(&["b'b'", "b'c'", "b'bc'", "b''"])).into());
                (call("contains", Some(recv), vec![arg]), Ty::Bool)
            }
            "contains_map" => {
                let m = self.gen(Ty::MapStrInt, d.min(1));
                (call("contains", Some(m), vec![G::Lit(format!("'{}'", self.r.pick(MAP_KEYS)))]), Ty::Bool)
            }
            "dur_cmp" => (G::Bin((*self.r.pick(&["<", ">=", "=="])).into(), Box::new(self.gen(Ty::Dur, d.min(1))), Box::new(self.gen(Ty::Dur, d.min(1)))), Ty::Bool),
            "ts_cmp" => (G::Bin((*self.r.pick(&["<", ">=", "!="])).into(), Box::new(self.gen(Ty::Ts, d.min(1))), Box::new(self.gen(Ty::Ts, d.min(1)))), Ty::Bool),
            "matches" => {
                let recv = self.gen(Ty::Str, d.min(1));
                (call("matches", Some(recv), vec![G::Lit((*self.r.pick(&["'^a'", "'^b'", "'b+'", "'a+'", "'^$'", "'[a-c]*z'", "'[a-c]*y'", "'('"])).into())]), Ty::Bool)
            }
            "startsWith" | "endsWith" => {
                let recv = self.gen(Ty::Str, d.min(1));
                (call(f, Some(recv), vec![G::Lit((*self.r.pick(&["'a'", "'b'", "'ab'", "''", "'zz'"])).into())]), Ty::Bool)
            }
            "var_eq" => {
                // comparisons and membership tests between context-held (shared) collections
                let t = *self.r.pick(&[Ty::ListInt, Ty::ListInt, Ty::ListStr, Ty::ListList, Ty::MapStrInt]);
                // operands: context variables, or values the host holds from earlier executions (`pick`)
                let held = self.r.chance(1, 2);
                let (a, b) = if held {
                    self.order_sensitive = true;
                    (G::Call("pick".into(), None, vec![lit_int(self.r)]), G::Call("pick".into(), None, vec![lit_int(self.r)]))
                } else {
                    (self.gen(t, 0), self.gen(t, 0))
                };
                match self.r.below(4) {
                    0 => (G::Bin("!=".into(), Box::new(a), Box::new(b)), Ty::Bool),
                    1 if t == Ty::ListInt => (G::Bin("in".into(), Box::new(a), Box::new(self.gen(Ty::ListList, 0))), Ty::Bool),
                    2 if t == Ty::ListInt => (G::Call("contains".into(), Some(Box::new(self.gen(Ty::ListList, 0))), vec![a]), Ty::Bool),
                    _ => (G::Bin("==".into(), Box::new(a), Box::new(b)), Ty::Bool),
                }
            }
            "timestamp" => (G::Bin("<".into(), Box::new(self.gen(Ty::Ts, 0)), Box::new(self.gen(Ty::Ts, 0))), Ty::Bool),
            "duration" => (G::Bin("<".into(), Box::new(self.gen(Ty::Dur, 0)), Box::new(self.gen(Ty::Dur, 0))), Ty::Bool),
            accessor => {
                let t = self.gen(Ty::Ts, d.min(1));
                (call(accessor, Some(t), vec![]), Ty::Int)
            }
        }
    }

    fn adapt(&mut self, g: G, from: Ty, to: Ty) -> G {
        match (from, to) {
            (a, b) if a == b => g,
            (Ty::Int, Ty::Bool) => G::Bin(">".into(), Box::new(g), Box::new(lit_int(self.r))),
            (Ty::Int, Ty::Str) => G::Call("string".into(), None, vec![g]),
            (Ty::Bool, Ty::Int) => G::Cond(Box::new(g), Box::new(G::Lit("1".into())), Box::new(G::Lit("0".into()))),
            (Ty::Bool, Ty::Str) => G::Cond(Box::new(g), Box::new(G::Lit("'a'".into())), Box::new(G::Lit("'b'".into()))),
            (Ty::Str, Ty::Int) => G::Call("size".into(), None, vec![g]),
            (Ty::Str, Ty::Bool) => G::Bin("==".into(), Box::new(g), Box::new(G::Lit("'a'".into()))),
            _ => g,
        }
    }

    fn builtin(&mut self, ty: Ty, depth: u32) -> Option<G> {
        if !self.focus.is_empty() && self.r.chance(3, 4) {
            let f = *self.r.pick(&self.focus.clone());
            let (g, gty) = self.focus_expr(f, depth);
            return Some(self.adapt(g, gty, ty));
        }
        let d = depth.saturating_sub(1);
        let call = |name: &str, recv: Option<G>, args: Vec<G>| G::Call(name.into(), recv.map(Box::new), args);
        Some(match ty {
            Ty::Int => match self.r.below(8) {
                0..=2 => {
                    let acc = *self.r.pick(&["getFullYear", "getMonth", "getDate", "getDayOfMonth", "getDayOfWeek", "getDayOfYear", "getHours", "getMinutes", "getSeconds", "getMilliseconds"]);
                    let t = self.gen(Ty::Ts, d);
                    call(acc, Some(t), vec![])
                }
                3 => call("int", None, vec![G::Lit((*self.r.pick(&["'12'", "'-3'", "2.5", "7u", "'x'"])).into())]),
                4 => {
                    let a = self.calling(|s| s.gen(Ty::Str, d));
                    call("size", None, vec![call("bytes", None, vec![a])])
                }
                5 => call("size", None, vec![self.var_or(Ty::Bytes, G::Lit("b'abc'".into()))]),
                6 => {
                    let (a, b, c) = (self.gen(Ty::Int, 0), self.gen(Ty::Int, 0), self.gen(Ty::Int, 0));
                    call(*self.r.pick(&["max", "min"]), None, vec![a, b, c])
                }
                _ => call("int", None, vec![self.calling(|s| s.gen(Ty::Double, d))]),
            },
            Ty::Str => {
                let t = *self.r.pick(&[Ty::Ts, Ty::Dur, Ty::Double, Ty::Bytes, Ty::UInt, Ty::Int]);
                let a = self.calling(|s| s.gen(t, d));
                call("string", None, vec![a])
            }
            Ty::Bool => match self.r.below(7) {
                0 => G::Bin((*self.r.pick(&["<", ">=", "=="])).into(), Box::new(self.gen(Ty::Dur, d)), Box::new(self.gen(Ty::Dur, d))),
                1 => G::Bin((*self.r.pick(&["<", ">=", "!="])).into(), Box::new(self.gen(Ty::Ts, d)), Box::new(self.gen(Ty::Ts, d))),
                2 => call("contains", Some(self.var_or(Ty::Bytes, G::Lit("b'abc'".into()))), vec![G::Lit("b'b'".into())]),
                3 => {
                    let m = self.gen(Ty::MapStrInt, d);
                    call("contains", Some(m), vec![G::Lit(format!("'{}'", self.r.pick(MAP_KEYS)))])
                }
                4 => G::Bin(">".into(), Box::new(call("double", None, vec![self.calling(|s| s.gen(Ty::Int, d))])), Box::new(G::Lit("1.5".into()))),
                5 => G::Bin("==".into(), Box::new(call("uint", None, vec![self.calling(|s| s.gen(Ty::Int, 0))])), Box::new(G::Lit("1u".into()))),
                _ => G::Bin("==".into(), Box::new(call("bytes", None, vec![self.calling(|s| s.gen(Ty::Str, d))])), Box::new(G::Lit("b'ab'".into()))),
            },
            _ => return None,
        })
    }

    fn gen_typed(&mut self, ty: Ty, depth: u32) -> G {
        let leaf = depth == 0 || self.nodes > 70;
        let rate = if self.focus.is_empty() { 14 } else { 4 };
        if !leaf && self.call_depth < 2 && matches!(ty, Ty::Int | Ty::Str | Ty::Bool) && self.r.chance(1, rate) {
            if let Some(g) = self.builtin(ty, depth) {
                return g;
            }
        }
        match ty {
            Ty::Int => {
                if leaf {
                    let l = lit_int(self.r);
                    return if self.r.chance(1, 2) { self.var_or(Ty::Int, l) } else { l };
                }
                match self.r.below(16) {
                    0..=1 => {
                        let l = lit_int(self.r);
                        self.var_or(Ty::Int, l)
                    }
                    2..=3 => {
                        let op = *self.r.pick(&["+", "-", "*", "%", "/"]);
                        G::Bin(op.into(), Box::new(self.gen(Ty::Int, depth - 1)), Box::new(self.gen(Ty::Int, depth - 1)))
                    }
                    4..=6 if self.call_depth < 3 => {
                        let t = *self.r.pick(&[Ty::ListInt, Ty::ListInt, Ty::ListList, Ty::Str, Ty::ListStr, Ty::MapStrInt]);
                        let arg = self.calling(|s| s.gen(t, depth - 1));
                        if self.r.chance(1, 2) {
                            G::Call("size".into(), None, vec![arg])
                        } else {
                            G::Call("size".into(), Some(Box::new(arg)), vec![])
                        }
                    }
                    7..=8 => G::Index(Box::new(self.gen(Ty::ListInt, depth - 1)), Box::new(self.gen(Ty::Int, depth.saturating_sub(2)))),
                    9 => G::Index(Box::new(self.gen(Ty::MapStrInt, depth - 1)), Box::new(self.gen(Ty::Str, depth.saturating_sub(2)))),
                    10 => G::Select(Box::new(self.gen(Ty::MapStrInt, depth - 1)), self.r.pick(MAP_KEYS).to_string()),
                    11 => G::Cond(Box::new(self.gen(Ty::Bool, depth - 1)), Box::new(self.gen(Ty::Int, depth - 1)), Box::new(self.gen(Ty::Int, depth - 1))),
                    12 => G::Un("-".into(), Box::new(self.gen(Ty::Int, depth - 1))),
                    13 if self.call_depth < 3 => {
                        let a = self.calling(|s| s.gen(Ty::ListInt, depth - 1));
                        G::Call((*self.r.pick(&["max", "min"])).into(), None, vec![a])
                    }
                    _ => lit_int(self.r),
                }
            }
            Ty::UInt => {
                if leaf || self.r.chance(1, 2) {
                    let l = G::Lit(format!("{}u", self.r.below(5)));
                    self.var_or(Ty::UInt, l)
                } else {
                    G::Bin((*self.r.pick(&["+", "*", "-"])).into(), Box::new(self.gen(Ty::UInt, depth - 1)), Box::new(self.gen(Ty::UInt, depth - 1)))
                }
            }
            Ty::Double => {
                if leaf || self.r.chance(1, 2) {
                    let l = G::Lit(format!("{}.5", self.r.below(4)));
                    self.var_or(Ty::Double, l)
                } else {
                    G::Bin((*self.r.pick(&["+", "*", "-", "/"])).into(), Box::new(self.gen(Ty::Double, depth - 1)), Box::new(self.gen(Ty::Double, depth - 1)))
                }
            }
            Ty::Bytes => {
                let l = G::Lit("b'ab'".into());
                self.var_or(Ty::Bytes, l)
            }
            Ty::Str => {
                if leaf {
                    let l = lit_str(self.r);
                    return if self.r.chance(2, 3) { self.var_or(Ty::Str, l) } else { l };
                }
                match self.r.below(14) {
                    0..=1 => {
                        let l = lit_str(self.r);
                        self.var_or(Ty::Str, l)
                    }
                    2..=6 => G::Bin("+".into(), Box::new(self.gen(Ty::Str, depth - 1)), Box::new(self.gen(Ty::Str, depth - 1))),
                    7 => G::Index(Box::new(self.gen(Ty::ListStr, depth - 1)), Box::new(self.gen(Ty::Int, depth.saturating_sub(2)))),
                    8 if self.call_depth < 3 => {
                        let a = self.calling(|s| s.gen(Ty::Int, depth - 1));
                        G::Call("string".into(), None, vec![a])
                    }
                    9 => G::Index(Box::new(self.gen(Ty::MapIntStr, depth - 1)), Box::new(self.gen(Ty::Int, depth.saturating_sub(2)))),
                    10..=11 => G::Cond(Box::new(self.gen(Ty::Bool, depth - 1)), Box::new(self.gen(Ty::Str, depth - 1)), Box::new(self.gen(Ty::Str, depth - 1))),
                    _ => lit_str(self.r),
                }
            }
            Ty::Bool => {
                if leaf {
                    let l = G::Lit((*self.r.pick(&["true", "false"])).into());
                    return if self.r.chance(1, 3) { self.var_or(Ty::Bool, l) } else { l };
                }
                match self.r.below(22) {
                    0..=2 => {
                        let op = *self.r.pick(&["<", "<=", ">", ">=", "==", "!="]);
                        G::Bin(op.into(), Box::new(self.gen(Ty::Int, depth - 1)), Box::new(self.gen(Ty::Int, depth - 1)))
                    }
                    3 => G::Bin((*self.r.pick(&["==", "!=", "<"])).into(), Box::new(self.gen(Ty::Str, depth - 1)), Box::new(self.gen(Ty::Str, depth - 1))),
                    4 => {
                        let t = *self.r.pick(&[Ty::ListInt, Ty::ListList, Ty::MapStrInt, Ty::ListStr]);
                        G::Bin((*self.r.pick(&["==", "!="])).into(), Box::new(self.gen(t, depth - 1)), Box::new(self.gen(t, depth - 1)))
                    }
                    5 => G::Bin("in".into(), Box::new(self.gen(Ty::Int, depth - 1)), Box::new(self.gen(Ty::ListInt, depth - 1))),
                    6 => G::Bin("in".into(), Box::new(self.gen(Ty::Str, depth - 1)), Box::new(self.gen(Ty::MapStrInt, depth - 1))),
                    7 => G::Has(Box::new(self.gen(Ty::MapStrInt, depth - 1)), self.r.pick(MAP_KEYS).to_string()),
                    8..=12 => {
                        let (range, rty) = self.list_range(depth - 1);
                        let var = self.iter_var();
                        let name = *self.r.pick(&["all", "exists", "exists_one", "all", "exists"]);
                        let body = self.with_var(&var, Self::elem_ty(rty), |s| s.gen(Ty::Bool, depth - 1));
                        G::Macro(name.into(), Box::new(range), var, vec![body])
                    }
                    13 if self.call_depth < 3 => {
                        let f = *self.r.pick(&["startsWith", "endsWith", "contains"]);
                        let recv = self.gen(Ty::Str, depth - 1);
                        let a = self.calling(|s| s.gen(Ty::Str, depth.saturating_sub(2)));
                        G::Call(f.into(), Some(Box::new(recv)), vec![a])
                    }
                    14 if self.call_depth < 3 => {
                        let recv = self.gen(Ty::Str, depth - 1);
                        G::Call("matches".into(), Some(Box::new(recv)), vec![G::Lit((*self.r.pick(&["'^a'", "'b+'", "'^$'", "'[a-c]*z'"])).into())])
                    }
                    15..=16 => G::Bin("&&".into(), Box::new(self.gen(Ty::Bool, depth - 1)), Box::new(self.gen(Ty::Bool, depth - 1))),
                    17..=18 => G::Bin("||".into(), Box::new(self.gen(Ty::Bool, depth - 1)), Box::new(self.gen(Ty::Bool, depth - 1))),
                    19 => G::Un("!".into(), Box::new(self.gen(Ty::Bool, depth - 1))),
                    20 if self.call_depth < 3 => {
                        let recv = self.gen(Ty::ListInt, depth - 1);
                        let a = self.calling(|s| s.gen(Ty::Int, depth.saturating_sub(2)));
                        G::Call("contains".into(), Some(Box::new(recv)), vec![a])
                    }
                    _ => G::Lit((*self.r.pick(&["true", "false"])).into()),
                }
            }
            Ty::ListInt | Ty::ListStr | Ty::ListList => self.gen_list(ty, depth, leaf),
            Ty::MapStrInt => {
                if leaf || self.r.chance(1, 2) {
                    let l = G::Map(vec![(G::Lit("'a'".into()), lit_int(self.r))]);
                    return self.var_or(Ty::MapStrInt, l);
                }
                match self.r.below(4) {
                    0..=1 => {
                        let n = self.r.range(0, 3);
                        let mut es = vec![];
                        for j in 0..n {
                            let k = if self.r.chance(1, 4) { self.gen(Ty::Str, depth - 1) } else { G::Lit(format!("'{}'", MAP_KEYS[j as usize])) };
                            es.push((k, self.gen(Ty::Int, depth - 1)));
                        }
                        G::Map(es)
                    }
                    _ => G::Cond(Box::new(self.gen(Ty::Bool, depth - 1)), Box::new(self.gen(Ty::MapStrInt, depth - 1)), Box::new(self.gen(Ty::MapStrInt, depth - 1))),
                }
            }
            Ty::MapIntStr => {
                let l = G::Map(vec![(lit_int(self.r), lit_str(self.r))]);
                if leaf || self.r.chance(2, 3) {
                    self.var_or(Ty::MapIntStr, l)
                } else {
                    G::Map(vec![(self.gen(Ty::Int, depth - 1), self.gen(Ty::Str, depth - 1)), (lit_int(self.r), self.gen(Ty::Str, depth - 1))])
                }
            }
            Ty::MapStrList => {
                let l = G::Map(vec![(G::Lit("'a'".into()), G::List(vec![lit_int(self.r)]))]);
                if leaf || self.r.chance(1, 2) {
                    self.var_or(Ty::MapStrList, l)
                } else {
                    G::Map(vec![(G::Lit("'a'".into()), self.gen(Ty::ListInt, depth - 1)), (self.gen(Ty::Str, depth - 1), self.gen(Ty::ListInt, depth - 1))])
                }
            }
            Ty::Ts => {
                let lit = G::Call("timestamp".into(), None, vec![G::Lit((*self.r.pick(&[
                    // near-duplicates on purpose (same year / same day / same instant in another offset): lossy cache keys collide on these
                    "'2023-05-28T10:20:30Z'",
                    "'2023-05-28T00:00:00Z'",
                    "'2023-05-28T12:20:30+02:00'",
                    "'2023-01-01T00:00:00+02:00'",
                    "'2023-12-31T23:59:59-05:00'",
                    "'1999-12-31T23:59:59.999+02:00'",
                    "'2024-02-29T00:00:00-08:00'",
                    "'bad'",
                ])).into())]);
                if leaf || self.r.chance(1, 2) {
                    self.var_or(Ty::Ts, lit)
                } else if self.r.chance(1, 2) {
                    G::Bin((*self.r.pick(&["+", "-"])).into(), Box::new(self.gen(Ty::Ts, depth - 1)), Box::new(self.gen(Ty::Dur, depth - 1)))
                } else {
                    lit
                }
            }
            Ty::Dur => {
                let lit = G::Call("duration".into(), None, vec![G::Lit((*self.r.pick(&["'1h'", "'60m'", "'90m'", "'1h30m'", "'1.5s'", "'-2ms'", "'1h30m1s'", "'nope'"])).into())]);
                if leaf || self.r.chance(1, 2) {
                    self.var_or(Ty::Dur, lit)
                } else {
                    match self.r.below(3) {
                        0 => G::Bin((*self.r.pick(&["+", "-"])).into(), Box::new(self.gen(Ty::Dur, depth - 1)), Box::new(self.gen(Ty::Dur, depth - 1))),
                        1 => G::Bin("-".into(), Box::new(self.gen(Ty::Ts, depth - 1)), Box::new(self.gen(Ty::Ts, depth - 1))),
                        _ => lit,
                    }
                }
            }
            Ty::Dyn => {
                if self.r.chance(1, 2) {
                    self.order_sensitive = true;
                    G::Call("pick".into(), None, vec![lit_int(self.r)])
                } else {
                    let t = self.any_ty();
                    self.gen(t, depth)
                }
            }
        }
    }

    fn gen_list(&mut self, ty: Ty, depth: u32, leaf: bool) -> G {
        let elem = Self::elem_ty(ty);
        let fallback = |s: &mut Self| -> G {
            let n = s.r.below(3);
            G::List((0..n).map(|_| s.gen(elem, 0)).collect())
        };
        if leaf {
            let f = fallback(self);
            return if self.r.chance(3, 4) { self.var_or(ty, f) } else { f };
        }
        match self.r.below(24) {
            0..=2 => {
                let f = fallback(self);
                self.var_or(ty, f)
            }
            3..=9 => G::Bin("+".into(), Box::new(self.gen(ty, depth - 1)), Box::new(self.gen(ty, depth - 1))),
            10..=11 => {
                let n = self.r.below(4);
                G::List((0..n).map(|_| self.gen(elem, depth - 1)).collect())
            }
            12..=15 => {
                // map: range of any list type, body of our element type
                let (range, rty) = self.list_range(depth - 1);
                let var = self.iter_var();
                let ety = Self::elem_ty(rty);
                let three = self.r.chance(1, 4);
                let (filter, body) = self.with_var(&var, ety, |s| {
                    let f = if three { Some(s.gen(Ty::Bool, depth - 1)) } else { None };
                    // favour bodies that concatenate the iteration variable with context variables
                    let b = if ty == Ty::ListList && ety == Ty::Int && s.r.chance(1, 2) {
                        G::Bin("+".into(), Box::new(G::List(vec![G::Var(var.clone())])), Box::new(s.gen(Ty::ListInt, depth - 1)))
                    } else if ety == elem && s.r.chance(1, 3) {
                        G::Bin("+".into(), Box::new(G::Var(var.clone())), Box::new(s.gen(elem, depth - 1)))
                    } else {
                        s.gen(elem, depth - 1)
                    };
                    (f, b)
                });
                let mut args = vec![];
                if let Some(f) = filter {
                    args.push(f);
                }
                args.push(body);
                G::Macro("map".into(), Box::new(range), var, args)
            }
            16..=18 => {
                let range = self.gen(ty, depth - 1);
                let var = self.iter_var();
                let body = self.with_var(&var, elem, |s| s.gen(Ty::Bool, depth - 1));
                G::Macro("filter".into(), Box::new(range), var, vec![body])
            }
            19..=20 => G::Cond(Box::new(self.gen(Ty::Bool, depth - 1)), Box::new(self.gen(ty, depth - 1)), Box::new(self.gen(ty, depth - 1))),
            21 if ty == Ty::ListInt => match self.r.below(3) {
                0 => G::Index(Box::new(self.gen(Ty::ListList, depth - 1)), Box::new(self.gen(Ty::Int, depth.saturating_sub(2)))),
                1 => G::Index(Box::new(self.gen(Ty::MapStrList, depth - 1)), Box::new(G::Lit(format!("'{}'", self.r.pick(MAP_KEYS))))),
                _ => G::Select(Box::new(self.gen(Ty::MapStrList, depth - 1)), self.r.pick(MAP_KEYS).to_string()),
            },
            22 => {
                self.order_sensitive = true;
                G::Call("pick".into(), None, vec![lit_int(self.r)])
            }
            _ => {
                let f = fallback(self);
                self.var_or(ty, f)
            }
        }
    }
}

/// Upper bounds (evaluation steps, size of the resulting collection) for a generated program, with
/// every collection-typed variable assumed to hold `var_len` elements. Keeps runaway workloads
/// (nested macros over long lists whose bodies concatenate) out of the batch: those only measure
/// the allocator. Function calls with one or two arguments count twice (the interpreter evaluates
/// their first argument twice today).
pub fn estimate(g: &G, var_len: u64) -> (u64, u64) {
    const CAP: u64 = 1 << 40;
    let add = |a: u64, b: u64| a.saturating_add(b).min(CAP);
    let mul = |a: u64, b: u64| a.saturating_mul(b).min(CAP);
    match g {
        G::Lit(_) => (1, 1),
        G::Var(_) => (1, var_len),
        G::Bin(op, l, r) => {
            let (cl, sl) = estimate(l, var_len);
            let (cr, sr) = estimate(r, var_len);
            let size = if op == "+" { add(sl, sr) } else { 1 };
            (add(add(cl, cr), 1 + size / 8), size)
        }
        G::Un(_, e) => {
            let (c, _) = estimate(e, var_len);
            (add(c, 1), 1)
        }
        G::Cond(c, a, b) => {
            let (cc, _) = estimate(c, var_len);
            let (ca, sa) = estimate(a, var_len);
            let (cb, sb) = estimate(b, var_len);
            (add(add(cc, ca.max(cb)), 1), sa.max(sb))
        }
        G::Call(name, recv, args) => {
            let mut cost = 1u64;
            let mut size = 1u64;
            if let Some(r) = recv {
                let (c, s) = estimate(r, var_len);
                cost = add(cost, c);
                size = size.max(s);
            }
            let mut args_cost = 0u64;
            for a in args {
                let (c, s) = estimate(a, var_len);
                args_cost = add(args_cost, c);
                size = size.max(s);
            }
            let factor = if args.len() == 1 || args.len() == 2 { 2 } else { 1 };
            cost = add(cost, mul(args_cost, factor));
            let out = if matches!(name.as_str(), "y" | "yc" | "log" | "boom" | "boomc" | "pick") { size.max(var_len) } else { 1 };
            (cost, out)
        }
        G::List(xs) => {
            let mut cost = 1u64;
            for x in xs {
                cost = add(cost, estimate(x, var_len).0);
            }
            (cost, xs.len() as u64)
        }
        G::Map(es) => {
            let mut cost = 1u64;
            for (k, v) in es {
                cost = add(cost, add(estimate(k, var_len).0, estimate(v, var_len).0));
            }
            (cost, es.len() as u64)
        }
        G::Index(e, i) => {
            let (ce, se) = estimate(e, var_len);
            let (ci, _) = estimate(i, var_len);
            // an element of a list of lists can itself be a list
            (add(add(ce, ci), 1), se.min(var_len).max(1))
        }
        G::Select(e, _) | G::Has(e, _) => {
            let (c, s) = estimate(e, var_len);
            (add(c, 1), s.min(var_len).max(1))
        }
        G::Macro(_, range, _, args) => {
            let (cr, sr) = estimate(range, var_len);
            let mut body_cost = 1u64;
            let mut body_size = 1u64;
            for a in args {
                let (c, s) = estimate(a, var_len);
                body_cost = add(body_cost, c);
                body_size = body_size.max(s);
            }
            // per element: the body, plus the accumulator copy `@result + [x]` (quadratic today)
            let per_elem = add(body_cost, 2 + sr / 8);
            (add(cr, mul(sr.max(1), per_elem)), mul(sr.max(1), 1).max(body_size))
        }
    }
}

pub const MAX_PROGRAM_COST: u64 = 40_000;
pub const MAX_PROGRAM_SIZE: u64 = 1_500;

pub fn gen_program(r: &mut Rng, root_names: &[(String, Ty)], depth: u32, stub_rate: u64, ill_typed_rate: u64) -> ProgramSpec {
    gen_program_bounded(r, root_names, depth, stub_rate, ill_typed_rate, 8)
}

thread_local! {
    /// focus set of the workload being generated (plumbing shortcut: generation is single-threaded)
    static FOCUS: std::cell::RefCell<Vec<&'static str>> = const { std::cell::RefCell::new(Vec::new()) };
}

/// Generates programs until one is within the cost bounds for collections of `var_len` elements,
/// lowering the depth on every rejection.
pub fn gen_program_bounded(r: &mut Rng, root_names: &[(String, Ty)], depth: u32, stub_rate: u64, ill_typed_rate: u64, var_len: u64) -> ProgramSpec {
    gen_program_costed(r, root_names, depth, stub_rate, ill_typed_rate, var_len, MAX_PROGRAM_COST)
}

pub fn gen_program_costed(r: &mut Rng, root_names: &[(String, Ty)], depth: u32, stub_rate: u64, ill_typed_rate: u64, var_len: u64, max_cost: u64) -> ProgramSpec {
    let mut d = depth;
    for _ in 0..12 {
        let p = gen_program_once(r, root_names, d, stub_rate, ill_typed_rate);
        let (cost, size) = estimate(p.tree.as_ref().expect("generated tree"), var_len);
        if cost <= max_cost && size <= MAX_PROGRAM_SIZE {
            return p;
        }
        d = d.saturating_sub(1).max(1);
    }
    let tree = G::Bin("+".into(), Box::new(G::Var("l".into())), Box::new(G::List(vec![G::Lit("1".into())])));
    ProgramSpec {
        src: tree.render(),
        tree: Some(tree),
        order_sensitive: false,
        ast: None,
    }
}

fn gen_program_once(r: &mut Rng, root_names: &[(String, Ty)], depth: u32, stub_rate: u64, ill_typed_rate: u64) -> ProgramSpec {
    let mut pg = PG {
        r,
        env: root_names.to_vec(),
        call_depth: 0,
        macro_depth: 0,
        order_sensitive: false,
        stub_rate,
        ill_typed_rate,
        nodes: 0,
        focus: FOCUS.with(|f| f.borrow().clone()),
    };
    let top = match pg.r.below(20) {
        0..=6 => Ty::ListInt,
        7..=8 => Ty::ListList,
        9..=10 => Ty::ListStr,
        11..=13 => Ty::Str,
        14..=15 => Ty::Bool,
        16..=17 => Ty::Int,
        18 => Ty::MapStrInt,
        _ => Ty::Dyn,
    };
    let tree = pg.gen(top, depth);
    let order_sensitive = pg.order_sensitive;
    ProgramSpec {
        src: tree.render(),
        tree: Some(tree),
        order_sensitive,
        ast: None,
    }
}

fn ty_of_name(name: &str) -> Option<Ty> {
    NAMES.iter().find(|(n, _)| *n == name).map(|(_, t)| *t)
}

fn gen_ops(r: &mut Rng, lim: &Limits, n_programs: usize, execs: u64, root_names: &[String], faults: bool, has_private: bool) -> Vec<Op> {
    let mut ops = vec![];
    let mut depth = 0usize;
    let mut done = 0u64;
    let mut last_prog = r.usize(n_programs);
    let _ = lim;
    // workloads that hammer comparisons of held collections also edit and duplicate what they hold more often
    let cmp_focus = FOCUS.with(|f| f.borrow().contains(&"var_eq"));
    while done < execs {
        if cmp_focus && r.chance(1, 8) {
            if r.chance(1, 2) {
                ops.push(Op::MutateRetained(r.usize(8)));
            } else {
                ops.push(Op::DupRetained(r.usize(8)));
            }
            continue;
        }
        match r.below(100) {
            0..=54 => {
                let prog = if r.chance(3, 10) { last_prog } else { r.usize(n_programs) };
                last_prog = prog;
                let target = match r.below(20) {
                    0..=2 => Target::Root,
                    3..=4 if has_private => Target::Private,
                    _ => Target::Inner,
                };
                let fault = if faults && r.chance(1, 4) { Some(r.below(1000) as u32) } else { None };
                ops.push(Op::Exec {
                    prog,
                    target,
                    fault,
                    retain: r.chance(7, 20),
                });
                done += 1;
            }
            55..=60 => {
                if depth < crate::run::MAX_SCOPE_DEPTH {
                    ops.push(Op::OpenScope);
                    depth += 1;
                }
            }
            61..=66 => {
                if depth > 0 {
                    ops.push(Op::CloseScope);
                    depth -= 1;
                }
            }
            67..=78 => {
                let (name, ty) = *r.pick(NAMES);
                let src = match r.below(10) {
                    0..=4 => ValSrc::Fresh(gen_value(r, ty, 0)),
                    5..=7 => {
                        // alias a root variable of the same type, if the root has one
                        let same: Vec<&String> = root_names.iter().filter(|n| ty_of_name(n) == Some(ty)).collect();
                        if same.is_empty() {
                            ValSrc::Fresh(gen_value(r, ty, 0))
                        } else {
                            ValSrc::RootVar((*r.pick(&same)).clone())
                        }
                    }
                    8 => ValSrc::Handoff(r.usize(8)),
                    _ => ValSrc::Retained(r.usize(8)),
                };
                ops.push(Op::Define { name: name.to_string(), src });
            }
            79 => ops.push(Op::DropRetained(r.usize(8))),
            80..=81 => ops.push(Op::MutateRetained(r.usize(8))),
            82..=88 => ops.push(Op::HostAdd(r.usize(8), r.usize(8), r.chance(1, 3))),
            89..=94 => {
                let name = if r.chance(1, 5) { "zz".to_string() } else { r.pick(NAMES).0.to_string() };
                ops.push(Op::Lookup(name));
            }
            _ => ops.push(Op::Checkpoint),
        }
    }
    ops
}

pub fn gen_workload(run_seed: u64, engine: Engine, lim: &Limits, faults: bool) -> Workload {
    let mut r = Rng::new(run_seed);
    let recipe = gen_recipe(&mut r);
    let n_private = r.below(3) as usize;
    let private_recipes: Vec<Recipe> = (0..n_private).map(|_| gen_recipe(&mut r)).collect();
    let root_names: Vec<(String, Ty)> = recipe.vars.iter().filter_map(|(n, _)| ty_of_name(n).map(|t| (n.clone(), t))).collect();
    let root_name_list: Vec<String> = recipe.vars.iter().map(|(n, _)| n.clone()).collect();

    let n_threads = match engine {
        Engine::S => 1,
        _ => {
            let hi = lim.max_threads.max(2);
            if r.chance(1, 2) {
                r.range(2, 4.min(hi as i64)) as usize
            } else {
                r.range(2, hi as i64) as usize
            }
        }
    };
    // swarm: a quarter of the workloads have every thread hammer the same one or two programs
    // (maximal overlap on the same AST nodes, scopes of the same depth, the same cache slots)
    let n_programs = if r.chance(1, 4) {
        r.range(1, 2) as usize
    } else {
        r.range(4.min(lim.max_programs as i64), lim.max_programs as i64) as usize
    };
    let stub_rate = if engine == Engine::M { *r.pick(&[150u64, 300]) } else { *r.pick(&[0u64, 60, 150, 300]) };
    let ill = *r.pick(&[0u64, 0, 10, 40]);
    // names visible to programs: root names plus everything scopes may define (type-preserving)
    let mut env: Vec<(String, Ty)> = root_names.clone();
    if r.chance(1, 4) {
        for (n, t) in NAMES {
            if !env.iter().any(|(m, _)| m == n) && r.chance(1, 4) {
                env.push((n.to_string(), *t));
            }
        }
    }
    // Scope definitions may bind any pool name to a freshly generated value, so the bound on the
    // length of collection variables is the generator's own maximum (long lists reach 70) whenever
    // long values are possible at all; programs are generated against that bound.
    let var_len = 70u64;
    // swarm: half of the workloads hammer one or two built-ins with varied arguments
    let mut focus: Vec<&'static str> = vec![];
    if r.chance(1, 2) {
        focus.push(*r.pick(FOCUSABLE));
        if r.chance(1, 3) {
            focus.push(*r.pick(FOCUSABLE));
        }
    }
    FOCUS.with(|f| *f.borrow_mut() = focus);
    let mut programs = vec![];
    for _ in 0..n_programs {
        let depth = r.range(1, lim.max_prog_depth as i64) as u32;
        // Miri executes ~1000x slower: keep its programs cheap
        let max_cost = if engine == Engine::M { 2_500 } else { MAX_PROGRAM_COST };
        programs.push(gen_program_costed(&mut r, &env, depth, stub_rate, ill, var_len, max_cost));
    }

    let mut threads = vec![];
    let mut budget = lim.max_total_execs;
    for t in 0..n_threads {
        let remaining_threads = (n_threads - t) as u64;
        let cap = lim.max_execs_per_thread.min((budget / remaining_threads).max(1));
        let execs = r.log_uniform(1, cap.max(1));
        budget = budget.saturating_sub(execs);
        let private_recipe = if n_private > 0 && r.chance(3, 10) { Some(r.usize(n_private)) } else { None };
        let ops = gen_ops(&mut r, lim, n_programs, execs, &root_name_list, faults, private_recipe.is_some());
        threads.push(ThreadPlan { ops, private_recipe });
    }

    let knobs = Knobs {
        hash_seed: r.next_u64(),
        hash_seed2: r.next_u64(),
        buggify_milli: *r.pick(&[0u32, 0, 100, 500]),
        // under Miri the oracle's lookups dominate the cost: check at checkpoints and at the end only
        check_every_op: r.chance(4, 5) && engine != Engine::M,
        twin_same: engine == Engine::S && r.chance(9, 10),
        twin_other: engine == Engine::S && r.chance(1, 2),
    };
    let policy = match r.below(10) {
        0..=4 => Policy::Random {
            p_milli: *r.pick(&[20u32, 100, 300, 1000]),
        },
        5..=7 => Policy::Pct {
            depth: r.range(1, 5) as u32,
            horizon: 0,
        },
        _ => Policy::RoundRobin { q: *r.pick(&[1u32, 3, 17]) },
    };
    let mut stalls = vec![];
    if r.chance(1, 5) {
        stalls.push(Stall {
            thread: r.usize(n_threads),
            from: r.below(2000),
            len: r.log_uniform(10, 2000),
        });
    }
    let enabled_sites = if r.chance(3, 10) {
        0xffff_ffff
    } else {
        let mut m = 0u32;
        for s in [0u32, 1, 2, 3, 4, 5, SITE_STUB_Y] {
            if r.chance(1, 2) {
                m |= 1 << s;
            }
        }
        if m == 0 {
            m = 1 << 0;
        }
        m
    };
    Workload {
        engine,
        run_seed,
        recipe,
        private_recipes,
        programs,
        threads,
        knobs,
        sched: SchedSpec {
            policy,
            stalls,
            seed: r.next_u64(),
            enabled_sites,
            fine_gap: *r.pick(&[2u32, 3, 5, 10, 20, 40, 200, 2000]),
        },
    }
}
