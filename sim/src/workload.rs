//! The explicit, serialisable description of one simulated run. A `Workload` plus a schedule
//! source is everything `run::run_workload` needs: replay files contain exactly this.
use serde::{Deserialize, Serialize};

#[derive(Clone, Debug, Serialize, Deserialize, PartialEq)]
pub enum KSpec {
    Int(i64),
    UInt(u64),
    Bool(bool),
    Str(String),
}

/// Recipe for a value: can be instantiated any number of times (pristine twins).
#[derive(Clone, Debug, Serialize, Deserialize, PartialEq)]
pub enum VSpec {
    Null,
    Bool(bool),
    Int(i64),
    UInt(u64),
    /// f64 bit pattern (JSON cannot carry NaN/inf).
    Float(u64),
    Str(String),
    Bytes(Vec<u8>),
    List(Vec<VSpec>),
    /// entries in insertion order
    Map(Vec<(KSpec, VSpec)>),
    /// index into `Recipe::shared`: built once per context instantiation, `Arc`-cloned per use
    Shared(usize),
    /// chrono::Duration as nanoseconds
    Dur(i64),
    /// unix seconds, nanos, utc offset seconds
    Ts(i64, u32, i32),
}

#[derive(Clone, Debug, Serialize, Deserialize, PartialEq)]
pub struct Recipe {
    pub shared: Vec<VSpec>,
    pub vars: Vec<(String, VSpec)>,
    /// register a host function named `size` that overrides the built-in (returns size+1000)
    pub override_builtin: bool,
}

/// Generator-side expression tree; rendered to CEL source text for the real parser.
#[derive(Clone, Debug, Serialize, Deserialize, PartialEq)]
pub enum G {
    Lit(String),
    Var(String),
    Bin(String, Box<G>, Box<G>),
    Un(String, Box<G>),
    Cond(Box<G>, Box<G>, Box<G>),
    /// name, receiver, args
    Call(String, Option<Box<G>>, Vec<G>),
    List(Vec<G>),
    Map(Vec<(G, G)>),
    Index(Box<G>, Box<G>),
    Select(Box<G>, String),
    Has(Box<G>, String),
    /// macro name, range, iteration variable, remaining args
    Macro(String, Box<G>, String, Vec<G>),
}

impl G {
    pub fn render(&self) -> String {
        let mut s = String::new();
        self.render_into(&mut s);
        s
    }

    fn render_into(&self, out: &mut String) {
        match self {
            G::Lit(t) => out.push_str(t),
            G::Var(v) => out.push_str(v),
            G::Bin(op, l, r) => {
                out.push('(');
                l.render_into(out);
                out.push(' ');
                out.push_str(op);
                out.push(' ');
                r.render_into(out);
                out.push(')');
            }
            G::Un(op, e) => {
                out.push('(');
                out.push_str(op);
                e.render_into(out);
                out.push(')');
            }
            G::Cond(c, a, b) => {
                out.push('(');
                c.render_into(out);
                out.push_str(" ? ");
                a.render_into(out);
                out.push_str(" : ");
                b.render_into(out);
                out.push(')');
            }
            G::Call(name, recv, args) => {
                if let Some(r) = recv {
                    r.render_postfix_operand(out);
                    out.push('.');
                }
                out.push_str(name);
                out.push('(');
                for (i, a) in args.iter().enumerate() {
                    if i > 0 {
                        out.push_str(", ");
                    }
                    a.render_into(out);
                }
                out.push(')');
            }
            G::List(xs) => {
                out.push('[');
                for (i, a) in xs.iter().enumerate() {
                    if i > 0 {
                        out.push_str(", ");
                    }
                    a.render_into(out);
                }
                out.push(']');
            }
            G::Map(es) => {
                out.push('{');
                for (i, (k, v)) in es.iter().enumerate() {
                    if i > 0 {
                        out.push_str(", ");
                    }
                    k.render_into(out);
                    out.push_str(": ");
                    v.render_into(out);
                }
                out.push('}');
            }
            G::Index(e, i) => {
                e.render_postfix_operand(out);
                out.push('[');
                i.render_into(out);
                out.push(']');
            }
            G::Select(e, f) => {
                e.render_postfix_operand(out);
                out.push('.');
                out.push_str(f);
            }
            G::Has(e, f) => {
                out.push_str("has(");
                e.render_postfix_operand(out);
                out.push('.');
                out.push_str(f);
                out.push(')');
            }
            G::Macro(name, range, var, args) => {
                range.render_postfix_operand(out);
                out.push('.');
                out.push_str(name);
                out.push('(');
                out.push_str(var);
                for a in args {
                    out.push_str(", ");
                    a.render_into(out);
                }
                out.push(')');
            }
        }
    }

    /// Operand of a postfix form (`.f`, `[i]`, `.m(...)`): literals such as `-1` need parentheses.
    fn render_postfix_operand(&self, out: &mut String) {
        let needs = match self {
            G::Lit(t) => t.starts_with('-') || t.contains('.') || t.ends_with('u'),
            _ => false,
        };
        if needs {
            out.push('(');
            self.render_into(out);
            out.push(')');
        } else {
            self.render_into(out);
        }
    }

    pub fn children(&self) -> Vec<&G> {
        match self {
            G::Lit(_) | G::Var(_) => vec![],
            G::Bin(_, l, r) => vec![l, r],
            G::Un(_, e) => vec![e],
            G::Cond(c, a, b) => vec![c, a, b],
            G::Call(_, r, args) => {
                let mut v: Vec<&G> = vec![];
                if let Some(r) = r {
                    v.push(r);
                }
                v.extend(args.iter());
                v
            }
            G::List(xs) => xs.iter().collect(),
            G::Map(es) => es.iter().flat_map(|(k, v)| [k, v]).collect(),
            G::Index(e, i) => vec![e, i],
            G::Select(e, _) | G::Has(e, _) => vec![e],
            G::Macro(_, r, _, args) => {
                let mut v: Vec<&G> = vec![r];
                v.extend(args.iter());
                v
            }
        }
    }

    pub fn size(&self) -> usize {
        1 + self.children().iter().map(|c| c.size()).sum::<usize>()
    }
}

/// Mirror of `cel_parser::ast::IdedExpr`, used to hand ASTs produced by the real parser to a
/// process that must not run the parser (Miri).
#[derive(Clone, Debug, Serialize, Deserialize, PartialEq)]
pub struct AstNode {
    pub id: u64,
    pub e: AstExpr,
}

#[derive(Clone, Debug, Serialize, Deserialize, PartialEq)]
pub enum AstLit {
    Str(String),
    Bool(bool),
    Int(i64),
    UInt(u64),
    Double(u64),
    Bytes(Vec<u8>),
    Null,
}

#[derive(Clone, Debug, Serialize, Deserialize, PartialEq)]
pub enum AstExpr {
    Unspecified,
    Call {
        func: String,
        target: Option<Box<AstNode>>,
        args: Vec<AstNode>,
    },
    Comprehension {
        iter_range: Box<AstNode>,
        iter_var: String,
        iter_var2: Option<String>,
        accu_var: String,
        accu_init: Box<AstNode>,
        loop_cond: Box<AstNode>,
        loop_step: Box<AstNode>,
        result: Box<AstNode>,
    },
    Ident(String),
    List(Vec<AstNode>),
    Literal(AstLit),
    /// (entry id, key, value, optional)
    Map(Vec<(u64, AstNode, AstNode, bool)>),
    Select {
        operand: Box<AstNode>,
        field: String,
        test: bool,
    },
}

#[derive(Clone, Debug, Serialize, Deserialize, PartialEq)]
pub struct ProgramSpec {
    pub src: String,
    /// generator tree (for shrinking); absent in hand-written workloads
    pub tree: Option<G>,
    /// may observe map iteration order (comprehension over a map / dynamic range, ill-typed)
    pub order_sensitive: bool,
    /// AST imported from the real parser (engine M only)
    #[serde(default, skip_serializing_if = "Option::is_none")]
    pub ast: Option<AstNode>,
}

#[derive(Clone, Debug, Serialize, Deserialize, PartialEq)]
pub enum ValSrc {
    Fresh(VSpec),
    /// clone of the shared root's variable (aliases the root's buffers)
    RootVar(String),
    /// clone of the i-th (mod len) retained value of this thread; Null if none
    Retained(usize),
    /// clone of the i-th (mod len) value the MAIN thread obtained from the program set before the
    /// run (a value created by one thread and used by another); Null if none
    Handoff(usize),
}

#[derive(Clone, Copy, Debug, Serialize, Deserialize, PartialEq)]
pub enum Target {
    /// innermost own scope
    Inner,
    /// the shared root itself
    Root,
    /// the thread's private root context
    Private,
}

#[derive(Clone, Debug, Serialize, Deserialize, PartialEq)]
pub enum Op {
    OpenScope,
    CloseScope,
    Define {
        name: String,
        src: ValSrc,
    },
    Exec {
        prog: usize,
        target: Target,
        /// Some(frac in 0..1000): the (1 + frac*calls/1000)-th `boom` call of this execution fails
        fault: Option<u32>,
        /// retain the result (if Ok) afterwards
        retain: bool,
    },
    DropRetained(usize),
    /// the host edits a value it holds, in place if it is the sole owner (`Arc::make_mut`): same
    /// buffer address, new content — legal for the owner of a value, and the library must not have
    /// remembered anything about the old content under that address
    MutateRetained(usize),
    /// the host makes a deep copy of a value it holds (equal content, another buffer) and holds that too
    DupRetained(usize),
    /// retained[i] + retained[j] applied by the host
    HostAdd(usize, usize, bool),
    Lookup(String),
    Checkpoint,
}

#[derive(Clone, Debug, Serialize, Deserialize, PartialEq)]
pub struct ThreadPlan {
    pub ops: Vec<Op>,
    /// index into `Workload::private_recipes`, if this thread owns a private root
    pub private_recipe: Option<usize>,
}

#[derive(Clone, Debug, Serialize, Deserialize, PartialEq)]
pub enum Policy {
    /// switch with probability p/1000 at each decision
    Random { p_milli: u32 },
    /// PCT: `depth` priority change points over an estimated `horizon` of decisions
    Pct { depth: u32, horizon: u64 },
    /// round robin with quantum q
    RoundRobin { q: u32 },
}

#[derive(Clone, Debug, Serialize, Deserialize, PartialEq)]
pub struct Stall {
    pub thread: usize,
    pub from: u64,
    pub len: u64,
}

#[derive(Clone, Debug, Serialize, Deserialize, PartialEq)]
pub struct SchedSpec {
    pub policy: Policy,
    pub stalls: Vec<Stall>,
    pub seed: u64,
    /// bit i set = hook site i is a scheduling point in this run (bit 31: stub `y`)
    pub enabled_sites: u32,
    /// fine-grained mode (needs the SanitizerCoverage build): mean number of instrumented
    /// control-flow edges of cel-interpreter between two scheduling decisions; 0 = off
    #[serde(default)]
    pub fine_gap: u32,
}

pub const SITE_STUB_Y: u32 = 31;
/// pseudo-site: an instrumented control-flow edge inside cel-interpreter (fine-grained mode)
pub const SITE_EDGE: u32 = 30;

#[derive(Clone, Debug, Serialize, Deserialize, PartialEq)]
pub struct Knobs {
    pub hash_seed: u64,
    pub hash_seed2: u64,
    /// probability (per mille) that an APPEND hit is forced onto the copy path
    pub buggify_milli: u32,
    /// evaluate the context/retained invariants after every op (else only at checkpoints/end)
    pub check_every_op: bool,
    /// engine S: compare each execution with a pristine twin (same hash seed)
    pub twin_same: bool,
    /// engine S: compare each execution with a pristine twin under `hash_seed2`
    pub twin_other: bool,
}

#[derive(Clone, Copy, Debug, Serialize, Deserialize, PartialEq, Eq)]
pub enum Engine {
    S,
    B,
    M,
}

#[derive(Clone, Debug, Serialize, Deserialize, PartialEq)]
pub struct Workload {
    pub engine: Engine,
    pub run_seed: u64,
    pub recipe: Recipe,
    pub private_recipes: Vec<Recipe>,
    pub programs: Vec<ProgramSpec>,
    pub threads: Vec<ThreadPlan>,
    pub knobs: Knobs,
    pub sched: SchedSpec,
}

/// Run-length encoded schedule: (thread, number of consecutive decisions that chose it).
pub type ScheduleRle = Vec<(u16, u32)>;

pub fn rle_encode(trace: &[u8]) -> ScheduleRle {
    let mut out: ScheduleRle = vec![];
    for &t in trace {
        match out.last_mut() {
            Some((lt, n)) if *lt == t as u16 => *n += 1,
            _ => out.push((t as u16, 1)),
        }
    }
    out
}

pub fn rle_decode(rle: &ScheduleRle) -> Vec<u8> {
    let mut out = vec![];
    for (t, n) in rle {
        for _ in 0..*n {
            out.push(*t as u8);
        }
    }
    out
}

#[derive(Clone, Debug, Serialize, Deserialize, PartialEq)]
pub struct ViolationInfo {
    pub invariant: String,
    pub phase: String,
    pub thread: usize,
    pub op_index: usize,
    pub expected: String,
    pub got: String,
    pub detail: String,
}

impl ViolationInfo {
    /// Class used by the minimiser: same invariant family keeps failing.
    pub fn class(&self) -> String {
        match self.invariant.as_str() {
            // "something that must not change did change / an equal context gives another result"
            "I2-root" | "I2-scope" | "I2-private-root" | "I2-twin" | "I4" | "I4-bound" | "I4-unreadable" | "I5a-reexec" | "I5a-twin" | "I5a-fresh-thread" | "I3-references" | "I3-reexec" | "I3-fresh-program" => "purity".to_string(),
            "I1" | "I2-scope-vs-alone" => "alone-equivalence".to_string(),
            other => other.to_string(),
        }
    }
}

#[derive(Clone, Debug, Serialize, Deserialize)]
pub struct ReplayFile {
    pub property: String,
    pub format: u32,
    pub master_seed: u64,
    pub run_index: u64,
    pub cfg_flags: Vec<String>,
    pub workload: Workload,
    /// explicit schedule of the failing run (engine B); empty for S
    pub schedule: ScheduleRle,
    pub violation: ViolationInfo,
    pub minimised: bool,
    pub deterministic_replay: bool,
    pub event_log_tail: Vec<String>,
    #[serde(default)]
    pub notes: Vec<String>,
}
