#![recursion_limit = "512"]
#![allow(dead_code, unused_assignments)]
//! celsim — deterministic simulation harness for cel-rust property C05.
//! See /verif/DESIGN.md. This binary is one worker: the orchestration (parallel workers, build,
//! Miri, evidence) lives in /verif/check.
mod astio;
mod futex;
mod gen;
mod minimise;
mod rng;
mod run;
mod sched;
mod snap;
mod stubs;
mod tls;
mod util;
mod workload;

use run::{run_workload, RunOptions, RunResult};
use std::collections::BTreeMap;
use workload::*;

fn arg<'a>(args: &'a [String], name: &str) -> Option<&'a str> {
    args.iter().position(|a| a == name).and_then(|i| args.get(i + 1)).map(|s| s.as_str())
}

fn arg_u64(args: &[String], name: &str, default: u64) -> u64 {
    arg(args, name).map(|s| s.parse().unwrap_or_else(|_| die(&format!("bad value for {}", name)))).unwrap_or(default)
}

fn die(msg: &str) -> ! {
    eprintln!("celsim: {}", msg);
    std::process::exit(2);
}

fn engine_of(s: &str) -> Engine {
    match s {
        "s" | "S" => Engine::S,
        "b" | "B" => Engine::B,
        "m" | "M" => Engine::M,
        _ => die("engine must be s, b or m"),
    }
}

fn engine_tag(e: Engine) -> u64 {
    match e {
        Engine::S => 0x53,
        Engine::B => 0x42,
        Engine::M => 0x4d,
    }
}

pub fn run_seed_of(master: u64, engine: Engine, index: u64) -> u64 {
    rng::mix(&[master, engine_tag(engine), index])
}

fn limits(engine: Engine, tier: &str) -> gen::Limits {
    match tier {
        "quick" => gen::Limits::quick(engine),
        "thorough" => gen::Limits::thorough(engine),
        _ => die("tier must be quick or thorough"),
    }
}

fn workload_for(master: u64, engine: Engine, tier: &str, index: u64) -> Workload {
    let lim = limits(engine, tier);
    // odd indices: fault-injecting sub-batch; even: fault-free
    gen::gen_workload(run_seed_of(master, engine, index), engine, &lim, index % 2 == 1)
}

fn cfg_flags() -> Vec<String> {
    let mut v = vec!["cel_verif".to_string()];
    if cfg!(cel_verif_hash) {
        v.push("cel_verif_hash".into());
    }
    if tls::fine_build() {
        v.push("sancov_fine".into());
    }
    v
}

fn write_replay(path: &str, master: u64, index: u64, w: &Workload, res: &RunResult, minimised: bool, notes: Vec<String>) {
    let v = res.violation.clone().expect("violation");
    let tail: Vec<String> = res.event_log.iter().rev().take(40).rev().cloned().collect();
    let rf = ReplayFile {
        property: "C05".into(),
        format: 1,
        master_seed: master,
        run_index: index,
        cfg_flags: cfg_flags(),
        workload: w.clone(),
        schedule: rle_encode(&res.trace),
        violation: v,
        minimised,
        deterministic_replay: !res.stats.sched.foreign_block,
        event_log_tail: tail,
        notes,
    };
    if let Some(dir) = std::path::Path::new(path).parent() {
        let _ = std::fs::create_dir_all(dir);
    }
    std::fs::write(path, serde_json::to_string_pretty(&rf).unwrap()).unwrap_or_else(|e| die(&format!("cannot write {}: {}", path, e)));
}

fn sample_of(w: &Workload, res: &RunResult) -> serde_json::Value {
    let sched_excerpt: Vec<(u16, u32)> = rle_encode(&res.trace).into_iter().take(24).collect();
    serde_json::json!({
        "engine": format!("{:?}", w.engine),
        "run_seed": w.run_seed,
        "root_recipe": w.recipe,
        "program_sources": w.programs.iter().map(|p| p.src.clone()).collect::<Vec<_>>(),
        "threads": w.threads.iter().map(|t| serde_json::json!({"private_root": t.private_recipe, "ops": t.ops.iter().take(40).collect::<Vec<_>>(), "n_ops": t.ops.len()})).collect::<Vec<_>>(),
        "knobs": w.knobs,
        "scheduler": w.sched,
        "schedule_excerpt_rle": sched_excerpt,
        "decisions": res.stats.sched.decisions,
        "context_switches": res.stats.sched.switches,
        "executions": res.stats.executions,
    })
}

#[derive(Default)]
struct Agg {
    runs: u64,
    executions: u64,
    ops: u64,
    solo_steps: u64,
    conc_steps: u64,
    solo_edges: u64,
    conc_edges: u64,
    fine_runs: u64,
    edge_switches: u64,
    decisions: u64,
    switches: u64,
    switches_two_in_exec: u64,
    probes: tls::Probes,
    twin_same: u64,
    twin_other: u64,
    twin_fresh: u64,
    twin_fresh_prog: u64,
    skipped_order: u64,
    faults_planned: u64,
    ok: u64,
    err: u64,
    panic: u64,
    exec_on_root: u64,
    exec_on_private: u64,
    exec_depth: [u64; 4],
    host_adds: u64,
    host_mutations: u64,
    retained_alias: u64,
    root_alias: u64,
    scope_opens: u64,
    invariant_checks: u64,
    runs_both_paths: u64,
    runs_with_faults_enabled: u64,
    nontrivial: Vec<u64>,
    preempt_pairs: std::collections::BTreeSet<(u32, u32)>,
    site_switches: Vec<u64>,
    threads_hist: BTreeMap<usize, u64>,
    max_execs_in_run: u64,
    max_history_len: u64,
    policies: BTreeMap<String, u64>,
    stalls: u64,
    foreign_block_runs: u64,
    futex_waits: u64,
    futex_wakes: u64,
    same_comp_var_overlaps: u64,
    root_exec_while_depth3: u64,
    digests: Vec<(u64, u64)>,
}

fn policy_name(p: &Policy) -> &'static str {
    match p {
        Policy::Random { .. } => "random",
        Policy::Pct { .. } => "pct",
        Policy::RoundRobin { .. } => "round_robin",
    }
}

/// Only one simulated thread of a worker runs at any time, so the whole worker belongs on one core:
/// a baton hand-over is then a plain context switch instead of a cross-core wake-up.
#[cfg(all(target_os = "linux", target_arch = "x86_64", not(miri)))]
fn pin_to_cpu(cpu: usize) {
    let mut mask = [0u64; 16];
    if cpu < 1024 {
        mask[cpu / 64] |= 1u64 << (cpu % 64);
        // sched_setaffinity(0, sizeof(mask), &mask); inherited by threads spawned later; failure is harmless
        unsafe {
            let _ = futex::syscall(203, 0, std::mem::size_of_val(&mask) as i64, mask.as_ptr() as i64, 0, 0, 0);
        }
    }
}
#[cfg(not(all(target_os = "linux", target_arch = "x86_64", not(miri))))]
fn pin_to_cpu(_cpu: usize) {}

fn cmd_batch(args: &[String]) {
    let engine = engine_of(arg(args, "--engine").unwrap_or("s"));
    let tier = arg(args, "--tier").unwrap_or("quick").to_string();
    let master = arg_u64(args, "--seed", 1);
    let from = arg_u64(args, "--from", 0);
    let to = arg_u64(args, "--to", 100);
    let stride = arg_u64(args, "--stride", 1);
    let out = arg(args, "--out").map(|s| s.to_string());
    let replay_dir = arg(args, "--replay-dir").unwrap_or("/verif/replays").to_string();
    let wall_budget = arg_u64(args, "--wall-s", 0);
    if let Some(cpu) = arg(args, "--cpu").and_then(|s| s.parse::<usize>().ok()) {
        pin_to_cpu(cpu);
    }
    let keep_digests = args.iter().any(|a| a == "--digests");
    let progress = arg(args, "--progress").map(|s| s.to_string());
    if std::env::var("CELSIM_PANIC_MSG").is_err() {
        std::panic::set_hook(Box::new(|_| {}));
    }
    let t0 = std::time::Instant::now();
    let mut agg = Agg::default();
    let mut sample: Option<serde_json::Value> = None;
    let mut violation: Option<serde_json::Value> = None;
    let mut harness_error: Option<String> = None;
    let mut budget_hit = false;
    let mut index = from;
    while index < to {
        if wall_budget > 0 && t0.elapsed().as_secs() >= wall_budget {
            budget_hit = true;
            break;
        }
        if let Some(p) = &progress {
            // which run is in flight, should the process die inside the code under test
            let _ = std::fs::write(p, format!("{}", index));
        }
        let w = workload_for(master, engine, &tier, index);
        let res = run_workload(&w, &RunOptions::default());
        if let Some(e) = &res.harness_error {
            harness_error = Some(format!("run index {}: {}", index, e));
            break;
        }
        agg.runs += 1;
        let st = &res.stats;
        agg.executions += st.executions;
        agg.ops += st.ops;
        agg.solo_steps += st.solo_steps;
        agg.conc_steps += st.conc_steps;
        agg.solo_edges += st.solo_edges;
        agg.conc_edges += st.conc_edges;
        if engine == Engine::B && tls::fine_build() && w.sched.fine_gap > 0 {
            agg.fine_runs += 1;
        }
        agg.edge_switches += st.sched.site_switches.get(SITE_EDGE as usize).copied().unwrap_or(0);
        agg.decisions += st.sched.decisions;
        agg.switches += st.sched.switches;
        agg.switches_two_in_exec += st.sched.switches_while_two_in_exec;
        agg.probes.add(&st.probes);
        agg.twin_same += st.twin_same_compared;
        agg.twin_other += st.twin_other_compared;
        agg.twin_fresh += st.twin_fresh_thread_compared;
        agg.twin_fresh_prog += st.twin_fresh_program_compared;
        agg.skipped_order += st.skipped_order_sensitive;
        agg.faults_planned += st.faults_planned;
        agg.ok += st.outcomes_ok;
        agg.err += st.outcomes_err;
        agg.panic += st.outcomes_panic;
        agg.exec_on_root += st.exec_on_root;
        agg.exec_on_private += st.exec_on_private;
        for i in 0..4 {
            agg.exec_depth[i] += st.exec_in_scope_depth[i];
        }
        agg.host_adds += st.host_adds;
        agg.host_mutations += st.host_mutations;
        agg.retained_alias += st.retained_alias_defines;
        agg.root_alias += st.root_alias_defines;
        agg.scope_opens += st.scope_opens;
        agg.invariant_checks += st.invariant_checks;
        if index % 2 == 1 {
            agg.runs_with_faults_enabled += 1;
        }
        *agg.threads_hist.entry(w.threads.len()).or_insert(0) += 1;
        let execs_in_plan: u64 = w.threads.iter().map(|t| t.ops.iter().filter(|o| matches!(o, Op::Exec { .. })).count() as u64).sum();
        agg.max_execs_in_run = agg.max_execs_in_run.max(execs_in_plan);
        for t in &w.threads {
            let h = t.ops.iter().filter(|o| matches!(o, Op::Exec { .. })).count() as u64;
            agg.max_history_len = agg.max_history_len.max(h);
        }
        if engine == Engine::B {
            *agg.policies.entry(policy_name(&w.sched.policy).to_string()).or_insert(0) += 1;
            agg.stalls += w.sched.stalls.len() as u64;
            if st.sched.foreign_block {
                agg.foreign_block_runs += 1;
            }
            agg.futex_waits += st.sched.futex_waits;
            agg.futex_wakes += st.sched.futex_wakes;
            agg.same_comp_var_overlaps += st.sched.same_comp_var_overlaps;
            agg.root_exec_while_depth3 += st.sched.root_exec_while_other_in_depth3;
            for p in &st.sched.preempt_pairs {
                agg.preempt_pairs.insert(*p);
            }
            if agg.site_switches.len() < st.sched.site_switches.len() {
                agg.site_switches.resize(st.sched.site_switches.len(), 0);
            }
            for (i, c) in st.sched.site_switches.iter().enumerate() {
                agg.site_switches[i] += c;
            }
            if st.sched.switches_while_two_in_exec > 0 {
                agg.nontrivial.push(util::digest_words(&[w.run_seed, st.sched.switch_digest]));
            }
        } else if st.took_both_append_paths {
            agg.runs_both_paths += 1;
            agg.nontrivial.push(util::digest_words(&[w.run_seed, st.run_digest]));
        }
        if keep_digests && !st.sched.foreign_block {
            agg.digests.push((index, st.run_digest));
        }
        if sample.is_none() && st.executions >= 3 && (engine != Engine::B || st.sched.switches_while_two_in_exec > 0) {
            sample = Some(sample_of(&w, &res));
        }
        if let Some(v) = &res.violation {
            let path = format!("{}/C05-{:?}-{}-raw.json", replay_dir, engine, w.run_seed);
            write_replay(&path, master, index, &w, &res, false, vec![]);
            violation = Some(serde_json::json!({"run_index": index, "run_seed": w.run_seed, "raw_replay": path, "violation": v}));
            break;
        }
        index += stride;
    }
    let wall = t0.elapsed().as_secs_f64();
    let summary = serde_json::json!({
        "engine": format!("{:?}", engine),
        "tier": tier,
        "master_seed": master,
        "from": from, "to": to, "stride": stride,
        "runs": agg.runs,
        "wall_s": wall,
        "budget_hit": budget_hit,
        "executions": agg.executions,
        "ops": agg.ops,
        "solo_steps": agg.solo_steps,
        "concurrent_steps": agg.conc_steps,
        "solo_edges": agg.solo_edges,
        "concurrent_edges": agg.conc_edges,
        "fine_grained_runs": agg.fine_runs,
        "context_switches_at_instrumented_edges": agg.edge_switches,
        "fine_build": tls::fine_build(),
        "instrumented_edge_guards": tls::N_GUARDS.load(std::sync::atomic::Ordering::Relaxed),
        "decisions": agg.decisions,
        "context_switches": agg.switches,
        "switches_while_two_threads_inside_an_execution": agg.switches_two_in_exec,
        "probes": agg.probes.to_json(),
        "twin_same_order_compared": agg.twin_same,
        "twin_other_order_compared": agg.twin_other,
        "twin_on_fresh_thread_compared": agg.twin_fresh,
        "freshly_compiled_program_compared": agg.twin_fresh_prog,
        "skipped_order_sensitive": agg.skipped_order,
        "faults_planned": agg.faults_planned,
        "outcomes_ok": agg.ok, "outcomes_err": agg.err, "outcomes_panic": agg.panic,
        "exec_on_shared_root": agg.exec_on_root,
        "exec_on_private_root": agg.exec_on_private,
        "exec_in_scope_depth": agg.exec_depth,
        "host_adds": agg.host_adds,
        "host_in_place_mutations_of_retained_values": agg.host_mutations,
        "retained_alias_defines": agg.retained_alias,
        "root_alias_defines": agg.root_alias,
        "scope_opens": agg.scope_opens,
        "invariant_checks": agg.invariant_checks,
        "runs_taking_both_append_paths": agg.runs_both_paths,
        "runs_fault_injecting": agg.runs_with_faults_enabled,
        "nontrivial_digests": agg.nontrivial.iter().map(|d| format!("{:016x}", d)).collect::<Vec<_>>(),
        "preempt_site_pairs": agg.preempt_pairs.iter().map(|p| vec![p.0, p.1]).collect::<Vec<_>>(),
        "site_switches": agg.site_switches.clone(),
        "threads_histogram": agg.threads_hist.iter().map(|(k, v)| (k.to_string(), *v)).collect::<BTreeMap<String, u64>>(),
        "max_executions_in_one_run": agg.max_execs_in_run,
        "max_history_len": agg.max_history_len,
        "policies": agg.policies,
        "stall_overlays": agg.stalls,
        "inconclusive_foreign_block_runs": agg.foreign_block_runs,
        "simulated_futex_waits": agg.futex_waits,
        "simulated_futex_wakes": agg.futex_wakes,
        "two_threads_in_comprehension_bodies_with_same_iteration_variable": agg.same_comp_var_overlaps,
        "exec_on_shared_root_while_another_thread_executes_in_depth3_scope": agg.root_exec_while_depth3,
        "run_digests": agg.digests.iter().map(|(i, d)| (i.to_string(), format!("{:016x}", d))).collect::<BTreeMap<String, String>>(),
        "sample": sample,
        "violation": violation,
        "harness_error": harness_error,
        "programs_rejected_by_the_parser": run::REJECTED.load(std::sync::atomic::Ordering::Relaxed),
        "hash_seam": if cfg!(cel_verif_hash) { "on" } else { "fallback" },
    });
    let text = serde_json::to_string(&summary).unwrap();
    match out {
        Some(p) => std::fs::write(&p, text).unwrap_or_else(|e| die(&format!("cannot write {}: {}", p, e))),
        None => println!("{}", text),
    }
    if harness_error.is_some() {
        std::process::exit(2);
    }
    if violation.is_some() {
        std::process::exit(1);
    }
}

fn load_replay(path: &str) -> ReplayFile {
    // lossy: a tree with memory-unsafe string handling can put invalid UTF-8 into reported values
    let bytes = std::fs::read(path).unwrap_or_else(|e| die(&format!("cannot read {}: {}", path, e)));
    let text = String::from_utf8_lossy(&bytes);
    serde_json::from_str(&text).unwrap_or_else(|e| die(&format!("cannot parse {}: {}", path, e)))
}

/// Runs a replay file's workload under its explicit schedule.
pub fn run_replay(rf: &ReplayFile) -> RunResult {
    let opts = RunOptions {
        explicit_schedule: if rf.workload.engine == Engine::B && !rf.schedule.is_empty() { Some(rle_decode(&rf.schedule)) } else { None },
        free_run: false,
        use_ast: false,
    };
    run_workload(&rf.workload, &opts)
}

fn cmd_replay(args: &[String]) {
    let path = args.get(0).map(|s| s.as_str()).unwrap_or_else(|| die("replay <file>"));
    std::panic::set_hook(Box::new(|_| {}));
    let rf = load_replay(path);
    let report = |v: &ViolationInfo, how: &str| -> ! {
        let same = v.invariant == rf.violation.invariant && v.thread == rf.violation.thread && v.op_index == rf.violation.op_index;
        println!(
            "replayed ({}): invariant={} phase={} thread={} op={} ({})",
            how,
            v.invariant,
            v.phase,
            v.thread,
            v.op_index,
            if same { "identical to the recorded violation" } else { "same class as the recorded violation" }
        );
        println!("  expected: {}", v.expected);
        println!("  got:      {}", v.got);
        println!("  detail:   {}", v.detail);
        println!("VIOLATION property=C05 replay={}", path);
        std::process::exit(1);
    };
    // 1. the recorded schedule, exactly
    for attempt in 0..3 {
        let res = run_replay(&rf);
        if let Some(e) = res.harness_error {
            die(&e);
        }
        if let Some(v) = res.violation {
            report(&v, if attempt == 0 { "recorded schedule" } else { "recorded schedule, repeated attempt" });
        }
    }
    // 2. The workload is what fails; the recorded schedule is one witness. If the tree's own
    // nondeterminism (e.g. a RandomState map added by the change under test) makes the recorded
    // decisions line up differently, look for another failing schedule of the same workload.
    if rf.workload.engine == Engine::B {
        for k in 0..300u64 {
            let mut w = rf.workload.clone();
            w.sched.seed = rng::mix(&[rf.workload.sched.seed, k, 0x7e91a7]);
            if k % 3 == 1 {
                w.sched.policy = Policy::Random { p_milli: 300 };
            }
            let res = run_workload(&w, &RunOptions::default());
            if let Some(v) = res.violation {
                if v.class() == rf.violation.class() {
                    report(&v, "same workload, schedule re-searched");
                }
            }
        }
    }
    println!("replay of {} did not reproduce a violation on this tree", path);
}

/// One execution of a replay file; prints the violation class. Used by the subprocess minimiser.
fn cmd_replay_once(args: &[String]) {
    let path = args.get(0).map(|s| s.as_str()).unwrap_or_else(|| die("replay-once <file>"));
    std::panic::set_hook(Box::new(|_| {}));
    let rf = load_replay(path);
    let res = run_replay(&rf);
    if let Some(e) = res.harness_error {
        die(&e);
    }
    if let Some(v) = res.violation {
        println!("CLASS={}", v.class());
        std::process::exit(1);
    }
}

fn cmd_minimise(args: &[String]) {
    let path = args.get(0).map(|s| s.as_str()).unwrap_or_else(|| die("minimise <in> <out>"));
    let out = args.get(1).map(|s| s.as_str()).unwrap_or_else(|| die("minimise <in> <out>"));
    let budget = arg_u64(args, "--wall-s", 120);
    std::panic::set_hook(Box::new(|_| {}));
    let rf = load_replay(path);
    let subprocess = args.iter().any(|a| a == "--subprocess");
    let min = minimise::minimise(rf, budget, subprocess);
    std::fs::write(out, serde_json::to_string_pretty(&min).unwrap()).unwrap_or_else(|e| die(&format!("cannot write {}: {}", out, e)));
    println!(
        "minimised: threads={} ops={} programs={} schedule_segments={} invariant={}",
        min.workload.threads.len(),
        min.workload.threads.iter().map(|t| t.ops.len()).sum::<usize>(),
        min.workload.programs.len(),
        min.schedule.len(),
        min.violation.invariant
    );
}

fn cmd_gen(args: &[String]) {
    let engine = engine_of(arg(args, "--engine").unwrap_or("b"));
    let tier = arg(args, "--tier").unwrap_or("quick");
    let master = arg_u64(args, "--seed", 1);
    let index = arg_u64(args, "--index", 0);
    let w = workload_for(master, engine, tier, index);
    println!("{}", serde_json::to_string_pretty(&w).unwrap());
}

/// Writes engine-M workload files (with ASTs imported from the real parser).
fn cmd_miri_gen(args: &[String]) {
    let tier = arg(args, "--tier").unwrap_or("quick");
    let master = arg_u64(args, "--seed", 1);
    let count = arg_u64(args, "--count", 1);
    let dir = arg(args, "--out").unwrap_or_else(|| die("--out <dir>"));
    std::panic::set_hook(Box::new(|_| {}));
    std::fs::create_dir_all(dir).unwrap_or_else(|e| die(&format!("{}", e)));
    let mut written = 0;
    let mut index = 0u64;
    while written < count {
        let mut w = workload_for(master, Engine::M, tier, index);
        index += 1;
        let mut ok = true;
        for p in w.programs.iter_mut() {
            match astio::import(&p.src) {
                Ok(a) => p.ast = Some(a),
                Err(_) => {
                    // rejected by the tree's parser: use a constant instead (C05 is not about compiling)
                    p.src = "null".into();
                    p.tree = None;
                    match astio::import("null") {
                        Ok(a) => p.ast = Some(a),
                        Err(e) => {
                            eprintln!("the tree under test cannot parse `null`: {}", e);
                            ok = false;
                        }
                    }
                }
            }
        }
        if !ok {
            std::process::exit(2);
        }
        // a workload worth the Miri budget has at least two threads executing something, exercises
        // concatenation, and is small enough for an interpreter that is ~1000x slower than native code:
        // measure it natively first (same code path the Miri process will take)
        // every thread executes at least twice (so that executions of different threads overlap)
        let busy = w.threads.iter().filter(|t| t.ops.iter().filter(|o| matches!(o, Op::Exec { .. })).count() >= 2).count();
        if busy < 2 || busy < w.threads.len() {
            continue;
        }
        let probe = run_workload(
            &w,
            &RunOptions {
                explicit_schedule: None,
                free_run: true,
                use_ast: true,
            },
        );
        let steps = probe.stats.solo_steps + probe.stats.conc_steps;
        let pr = &probe.stats.probes;
        let appends = pr.site_hits[3] + pr.site_hits[4];
        // the few executions Miri can afford must touch everything shared: function dispatch (registry),
        // variable lookup, comprehension scopes, both kinds of concatenation
        let rich = pr.site_hits[1] >= 12 && pr.site_hits[2] >= 20 && pr.comprehensions >= 4 && appends >= 4;
        let tries = index;
        if tries < 3000 && (probe.violation.is_some() || steps < 300 || steps > 2500 || !rich) {
            continue;
        }
        let path = format!("{}/m-{}-{}.json", dir, master, written);
        std::fs::write(&path, serde_json::to_string(&w).unwrap()).unwrap_or_else(|e| die(&format!("{}", e)));
        println!("{}", path);
        written += 1;
    }
}

/// Engine M entry point (also runnable natively as a free-running smoke test).
fn cmd_miri_run(args: &[String]) {
    let path = args.get(0).map(|s| s.as_str()).unwrap_or_else(|| die("miri-run <workload>"));
    let text = std::fs::read_to_string(path).unwrap_or_else(|e| die(&format!("cannot read {}: {}", path, e)));
    let w: Workload = serde_json::from_str(&text).unwrap_or_else(|e| die(&format!("cannot parse {}: {}", path, e)));
    std::panic::set_hook(Box::new(|_| {}));
    let res = run_workload(
        &w,
        &RunOptions {
            explicit_schedule: None,
            free_run: true,
            use_ast: true,
        },
    );
    if let Some(e) = res.harness_error {
        die(&e);
    }
    println!(
        "MIRI-RUN executions={} ops={} solo_steps={} conc_steps={} threads={}",
        res.stats.executions,
        res.stats.ops,
        res.stats.solo_steps,
        res.stats.conc_steps,
        w.threads.len()
    );
    if let Some(v) = res.violation {
        println!("INVARIANT-VIOLATION invariant={} phase={} thread={} op={}", v.invariant, v.phase, v.thread, v.op_index);
        println!("  expected: {}", v.expected);
        println!("  got:      {}", v.got);
        println!("  detail:   {}", v.detail);
        std::process::exit(1);
    }
}

/// Crash triage. A worker process died (signal) while running index `--index`. Decide whether the
/// crash is inherent in single executions (every program executed once, alone, on a pristine root,
/// no history, no sharing: that is input-dependent panic-freedom, not C05) or needs history/sharing.
/// `--mode single`: run every (program, target) of the workload standalone. `--mode full`: run the
/// workload as the worker did. The caller looks at how this process exits.
fn cmd_triage(args: &[String]) {
    let engine = engine_of(arg(args, "--engine").unwrap_or("s"));
    let tier = arg(args, "--tier").unwrap_or("quick");
    let master = arg_u64(args, "--seed", 1);
    let index = arg_u64(args, "--index", 0);
    let mode = arg(args, "--mode").unwrap_or("single");
    std::panic::set_hook(Box::new(|_| {}));
    let w = workload_for(master, engine, tier, index);
    if mode == "full" {
        let res = run_workload(&w, &RunOptions::default());
        if let Some(p) = arg(args, "--write") {
            // the run survived: nothing to write
            let _ = p;
        }
        println!("triage full: survived (violation: {})", res.violation.map(|v| v.invariant).unwrap_or_else(|| "none".into()));
        return;
    }
    if mode == "dump" {
        let path = arg(args, "--write").unwrap_or_else(|| die("--write <file>"));
        let deadlock = arg(args, "--kind") == Some("deadlock");
        let rf = ReplayFile {
            property: "C05".into(),
            format: 1,
            master_seed: master,
            run_index: index,
            cfg_flags: cfg_flags(),
            workload: w.clone(),
            schedule: vec![],
            violation: ViolationInfo {
                invariant: if deadlock { "I6-deadlock".into() } else { "process-crash".into() },
                phase: if deadlock { "concurrent".into() } else { "unknown".into() },
                thread: 0,
                op_index: 0,
                expected: "the run completes".into(),
                got: if deadlock {
                    "every live simulated thread waits on a futex that nobody will wake (deadlock under this schedule)".into()
                } else {
                    "the worker process was killed by a signal while executing this workload".into()
                },
                detail: if deadlock {
                    "executions sharing the root context block each other forever although each completes when run alone".into()
                } else {
                    "memory corruption or abort inside the code under test that needs history or sharing to occur (every program of this workload survives when executed once, alone, on a pristine context)".into()
                },
            },
            minimised: false,
            deterministic_replay: false,
            event_log_tail: vec![],
            notes: vec!["replay = run this workload in a fresh process; reproduced if the process dies or reports a violation".into()],
        };
        std::fs::write(path, serde_json::to_string_pretty(&rf).unwrap()).unwrap_or_else(|e| die(&format!("{}", e)));
        return;
    }
    tls::install_hooks();
    cel_interpreter::verif::set_hash_seed(w.knobs.hash_seed);
    let c = run::compile_all(&w, false).unwrap_or_else(|e| die(&e));
    tls::activate(0, None, 0, w.knobs.buggify_milli);
    let mut n = 0;
    for (i, p) in c.programs.iter().enumerate() {
        for recipe in std::iter::once(&w.recipe).chain(w.private_recipes.iter()) {
            let root = snap::build_root(recipe);
            tls::begin_exec(i as u64, 0);
            let _ = std::panic::catch_unwind(std::panic::AssertUnwindSafe(|| p.execute(&root.ctx)));
            let inner = root.ctx.new_inner_scope();
            let _ = std::panic::catch_unwind(std::panic::AssertUnwindSafe(|| p.execute(&inner)));
            n += 2;
        }
    }
    println!("triage single: {} standalone executions survived", n);
}

/// Debugging aid: print what each program of a generated workload yields on a pristine root.
fn cmd_explain(args: &[String]) {
    let engine = engine_of(arg(args, "--engine").unwrap_or("s"));
    let tier = arg(args, "--tier").unwrap_or("quick");
    let master = arg_u64(args, "--seed", 1);
    let from = arg_u64(args, "--from", 0);
    let to = arg_u64(args, "--to", 1);
    std::panic::set_hook(Box::new(|_| {}));
    for index in from..to {
        let w = workload_for(master, engine, tier, index);
        tls::install_hooks();
        cel_interpreter::verif::set_hash_seed(w.knobs.hash_seed);
        let c = run::compile_all(&w, false).unwrap_or_else(|e| die(&e));
        let root = snap::build_root(&w.recipe);
        for (i, p) in c.programs.iter().enumerate() {
            let r = std::panic::catch_unwind(std::panic::AssertUnwindSafe(|| p.execute(&root.ctx)));
            let o = match r {
                Ok(r) => snap::Outcome::of(&r).show(),
                Err(_) => "PANIC".to_string(),
            };
            println!("[{}:{}] {}  =>  {}", index, i, w.programs[i].src, o);
        }
    }
}

fn main() {
    let args: Vec<String> = std::env::args().skip(1).collect();
    if args.is_empty() {
        die("usage: celsim <batch|replay|minimise|gen|miri-gen|miri-run> ...");
    }
    let rest = &args[1..];
    match args[0].as_str() {
        "batch" => cmd_batch(rest),
        "replay" => cmd_replay(rest),
        "replay-once" => cmd_replay_once(rest),
        "minimise" => cmd_minimise(rest),
        "gen" => cmd_gen(rest),
        "explain" => cmd_explain(rest),
        "triage" => cmd_triage(rest),
        "miri-gen" => cmd_miri_gen(rest),
        "miri-run" => cmd_miri_run(rest),
        _ => die("unknown command"),
    }
}
