//! `Snap`: the harness's own deep, `Arc`-free picture of a `Value`; `Outcome`: what an execution
//! returned; builders that turn recipes into real values and contexts.
use crate::workload::{KSpec, Recipe, VSpec};
use cel_interpreter::objects::Key;
use cel_interpreter::{Context, ExecutionError, Value};
use std::collections::BTreeMap;
use std::sync::Arc;

#[derive(Clone, Debug, PartialEq, Eq, PartialOrd, Ord, Hash)]
pub enum SnapKey {
    Int(i64),
    UInt(u64),
    Bool(bool),
    Str(String),
}

#[derive(Clone, Debug, PartialEq, Eq, Hash)]
pub enum Snap {
    Null,
    Bool(bool),
    Int(i64),
    UInt(u64),
    /// bit pattern, NaN canonicalised
    Float(u64),
    Str(String),
    Bytes(Vec<u8>),
    List(Vec<Snap>),
    Map(BTreeMap<SnapKey, Snap>),
    Func(String, Option<Box<Snap>>),
    /// seconds, subsec nanos
    Dur(i64, i32),
    /// unix seconds, nanos, offset seconds
    Ts(i64, u32, i32),
    Other(String),
}

fn canon_f64(f: f64) -> u64 {
    if f.is_nan() {
        0x7ff8_0000_0000_0000
    } else {
        f.to_bits()
    }
}

pub fn snap_key(k: &Key) -> SnapKey {
    match k {
        Key::Int(i) => SnapKey::Int(*i),
        Key::Uint(u) => SnapKey::UInt(*u),
        Key::Bool(b) => SnapKey::Bool(*b),
        Key::String(s) => SnapKey::Str(s.as_ref().clone()),
    }
}

pub fn snap(v: &Value) -> Snap {
    #[allow(unreachable_patterns)]
    match v {
        Value::Null => Snap::Null,
        Value::Bool(b) => Snap::Bool(*b),
        Value::Int(i) => Snap::Int(*i),
        Value::UInt(u) => Snap::UInt(*u),
        Value::Float(f) => Snap::Float(canon_f64(*f)),
        Value::String(s) => Snap::Str(s.as_ref().clone()),
        Value::Bytes(b) => Snap::Bytes(b.as_ref().clone()),
        Value::List(l) => Snap::List(l.iter().map(snap).collect()),
        Value::Map(m) => Snap::Map(m.map.iter().map(|(k, v)| (snap_key(k), snap(v))).collect()),
        Value::Function(n, r) => Snap::Func(
            n.as_ref().clone(),
            r.as_ref().map(|b| Box::new(snap(b.as_ref()))),
        ),
        Value::Duration(d) => Snap::Dur(d.num_seconds(), d.subsec_nanos()),
        Value::Timestamp(t) => Snap::Ts(
            t.timestamp(),
            t.timestamp_subsec_nanos(),
            t.offset().local_minus_utc(),
        ),
        other => Snap::Other(format!("{:?}", other)),
    }
}

impl Snap {
    /// Short rendering for reports.
    pub fn show(&self) -> String {
        let s = format!("{:?}", self);
        if s.len() > 400 {
            format!("{}…({} chars)", &s[..s.char_indices().nth(380).map(|x| x.0).unwrap_or(s.len())], s.len())
        } else {
            s
        }
    }

    /// Does this value contain a map with two or more keys (whose iteration order is observable)?
    pub fn has_multi_key_map(&self) -> bool {
        match self {
            Snap::List(l) => l.iter().any(|x| x.has_multi_key_map()),
            Snap::Map(m) => m.len() >= 2 || m.values().any(|x| x.has_multi_key_map()),
            Snap::Func(_, Some(r)) => r.has_multi_key_map(),
            _ => false,
        }
    }

    pub fn weight(&self) -> usize {
        match self {
            Snap::List(l) => 1 + l.iter().map(|x| x.weight()).sum::<usize>(),
            Snap::Map(m) => 1 + m.values().map(|x| x.weight()).sum::<usize>(),
            _ => 1,
        }
    }
}

#[derive(Clone, Debug, PartialEq, Eq, Hash)]
pub enum Outcome {
    Ok(Snap),
    Err(String),
    Panic(String),
}

impl Outcome {
    pub fn of(r: &Result<Value, ExecutionError>) -> Outcome {
        match r {
            Ok(v) => Outcome::Ok(snap(v)),
            Err(e) => Outcome::Err(format!("{:?}", e)),
        }
    }

    pub fn show(&self) -> String {
        match self {
            Outcome::Ok(s) => format!("Ok({})", s.show()),
            Outcome::Err(e) => {
                let mut e = e.clone();
                if e.len() > 400 {
                    e.truncate(e.char_indices().nth(380).map(|x| x.0).unwrap_or(e.len()));
                    e.push('…');
                }
                format!("Err({})", e)
            }
            Outcome::Panic(p) => format!("Panic({})", p),
        }
    }

    /// True if the textual form of this outcome may depend on map iteration order.
    pub fn text_mentions_map(&self) -> bool {
        match self {
            Outcome::Ok(_) => false,
            Outcome::Err(e) | Outcome::Panic(e) => e.contains("map: {") || e.contains("Map {"),
        }
    }

    pub fn digest(&self) -> u64 {
        use std::hash::{Hash, Hasher};
        let mut h = crate::util::Fnv::default();
        self.hash(&mut h);
        h.finish()
    }
}

pub fn build_key(k: &KSpec) -> Key {
    match k {
        KSpec::Int(i) => Key::Int(*i),
        KSpec::UInt(u) => Key::Uint(*u),
        KSpec::Bool(b) => Key::Bool(*b),
        KSpec::Str(s) => Key::String(Arc::new(s.clone())),
    }
}

/// Builds a map value through the public API only: the harness evaluates a map literal
/// `{k0: v0, k1: v1, ...}` (keys as literals, values as variables of a scratch context), so it depends
/// neither on the fields of `objects::Map` nor on its hasher, and entries are inserted in the given
/// order under whatever hash seed is current.
pub fn make_map(entries: Vec<(Key, Value)>) -> Value {
    use cel_parser::ast::{EntryExpr, Expr, IdedEntryExpr, IdedExpr, MapEntryExpr, MapExpr};
    use cel_parser::reference::Val;
    let _g = crate::tls::OracleGuard::enter();
    let mut ctx = Context::empty();
    let mut es = Vec::with_capacity(entries.len());
    let mut id = 1u64;
    for (i, (k, v)) in entries.into_iter().enumerate() {
        let name = format!("v{}", i);
        ctx.add_variable_from_value(name.clone(), v);
        let key = match k {
            Key::Int(x) => Val::Int(x),
            Key::Uint(x) => Val::UInt(x),
            Key::Bool(x) => Val::Boolean(x),
            Key::String(x) => Val::String(x.as_ref().clone()),
        };
        id += 3;
        es.push(IdedEntryExpr {
            id,
            expr: EntryExpr::MapEntry(MapEntryExpr {
                key: IdedExpr { id: id + 1, expr: Expr::Literal(key) },
                value: IdedExpr { id: id + 2, expr: Expr::Ident(name) },
                optional: false,
            }),
        });
    }
    let expr = IdedExpr { id: 1, expr: Expr::Map(MapExpr { entries: es }) };
    ctx.resolve(&expr).unwrap_or(Value::Null)
}

/// Instantiates a value recipe. `shared` are the already built shared values of the context.
pub fn build_value(spec: &VSpec, shared: &[Value]) -> Value {
    match spec {
        VSpec::Null => Value::Null,
        VSpec::Bool(b) => Value::Bool(*b),
        VSpec::Int(i) => Value::Int(*i),
        VSpec::UInt(u) => Value::UInt(*u),
        VSpec::Float(bits) => Value::Float(f64::from_bits(*bits)),
        VSpec::Str(s) => Value::String(Arc::new(s.clone())),
        VSpec::Bytes(b) => Value::Bytes(Arc::new(b.clone())),
        VSpec::List(xs) => Value::List(Arc::new(xs.iter().map(|x| build_value(x, shared)).collect())),
        VSpec::Map(es) => make_map(es.iter().map(|(k, v)| (build_key(k), build_value(v, shared))).collect()),
        VSpec::Shared(i) => shared.get(*i).cloned().unwrap_or(Value::Null),
        VSpec::Dur(n) => Value::Duration(chrono::Duration::nanoseconds(*n)),
        VSpec::Ts(secs, nanos, off) => {
            let off = chrono::FixedOffset::east_opt(*off).unwrap_or_else(|| chrono::FixedOffset::east_opt(0).unwrap());
            match chrono::DateTime::from_timestamp(*secs, *nanos) {
                Some(dt) => Value::Timestamp(dt.with_timezone(&off)),
                None => Value::Null,
            }
        }
    }
}

/// Deep copy of a value through its snapshot: no `Arc` is shared with the original. Maps are
/// rebuilt under whatever hash seed is current.
pub fn rebuild_from_snap(s: &Snap) -> Value {
    match s {
        Snap::Null => Value::Null,
        Snap::Bool(b) => Value::Bool(*b),
        Snap::Int(i) => Value::Int(*i),
        Snap::UInt(u) => Value::UInt(*u),
        Snap::Float(bits) => Value::Float(f64::from_bits(*bits)),
        Snap::Str(s) => Value::String(Arc::new(s.clone())),
        Snap::Bytes(b) => Value::Bytes(Arc::new(b.clone())),
        Snap::List(xs) => Value::List(Arc::new(xs.iter().map(rebuild_from_snap).collect())),
        Snap::Map(es) => make_map(
            es.iter()
                .map(|(k, v)| {
                    let key = match k {
                        SnapKey::Int(i) => Key::Int(*i),
                        SnapKey::UInt(u) => Key::Uint(*u),
                        SnapKey::Bool(b) => Key::Bool(*b),
                        SnapKey::Str(s) => Key::String(Arc::new(s.clone())),
                    };
                    (key, rebuild_from_snap(v))
                })
                .collect(),
        ),
        Snap::Func(n, r) => Value::Function(
            Arc::new(n.clone()),
            r.as_ref().map(|b| Box::new(rebuild_from_snap(b))),
        ),
        Snap::Dur(secs, nanos) => Value::Duration(
            chrono::Duration::seconds(*secs) + chrono::Duration::nanoseconds(*nanos as i64),
        ),
        Snap::Ts(secs, nanos, off) => build_value(&VSpec::Ts(*secs, *nanos, *off), &[]),
        Snap::Other(_) => Value::Null,
    }
}

/// A root context instantiated from a recipe, plus the snapshot of each variable at build time.
pub struct BuiltRoot {
    pub ctx: Context<'static>,
    /// what looking up every name of the pool gave right after the context was built: the
    /// baseline every later observation of this context is compared with (model-free: if lookup
    /// itself is broken in the tree under test, it is broken the same way before and after)
    pub expect: Vec<Outcome>,
}

/// Looks up every name of the pool in `ctx`.
pub fn observe(ctx: &Context) -> Vec<Outcome> {
    crate::run::NAME_POOL.iter().map(|n| Outcome::of(&ctx.get_variable(*n))).collect()
}

pub fn first_difference(a: &[Outcome], b: &[Outcome]) -> Option<usize> {
    (0..a.len().min(b.len())).find(|i| a[*i] != b[*i])
}

pub fn digest_obs(o: &[Outcome]) -> u64 {
    crate::util::digest_words(&o.iter().map(|x| x.digest()).collect::<Vec<_>>())
}

pub fn build_root(recipe: &Recipe) -> BuiltRoot {
    let mut ctx = Context::default();
    crate::stubs::register(&mut ctx, recipe.override_builtin);
    let mut shared: Vec<Value> = Vec::with_capacity(recipe.shared.len());
    for s in &recipe.shared {
        let v = build_value(s, &shared);
        shared.push(v);
    }
    for (name, spec) in &recipe.vars {
        let v = build_value(spec, &shared);
        ctx.add_variable_from_value(name.clone(), v);
    }
    let expect = observe(&ctx);
    BuiltRoot { ctx, expect }
}
