//! The blocking seam. std's Mutex, RwLock, Condvar, Once (and parking_lot) block through
//! `libc::syscall(SYS_futex, ..)`. This binary defines `syscall` itself, so every such call made by
//! code linked into it lands here. For a simulated thread that holds the baton, FUTEX_WAIT becomes
//! a scheduling decision ("this thread cannot run until someone wakes the address") and FUTEX_WAKE
//! marks simulated waiters runnable, so contention on a lock that the code under test adds never
//! parks the baton holder in the kernel, and a cycle of waits is reported as a deadlock instead of
//! hanging. Everything else is forwarded to the kernel unchanged.
#![cfg(all(target_os = "linux", target_arch = "x86_64", not(miri)))]

const SYS_FUTEX: i64 = 202;
const EAGAIN: i32 = 11;

extern "C" {
    fn __errno_location() -> *mut i32;
}

#[inline(always)]
unsafe fn raw(num: i64, a1: i64, a2: i64, a3: i64, a4: i64, a5: i64, a6: i64) -> i64 {
    let ret: i64;
    core::arch::asm!(
        "syscall",
        inlateout("rax") num => ret,
        in("rdi") a1, in("rsi") a2, in("rdx") a3, in("r10") a4, in("r8") a5, in("r9") a6,
        lateout("rcx") _, lateout("r11") _,
        options(nostack)
    );
    if ret < 0 && ret > -4096 {
        *__errno_location() = (-ret) as i32;
        -1
    } else {
        ret
    }
}

unsafe fn intercept(addr: usize, op: i64, val: u32, timeout: usize, a1: i64, a2: i64, a3: i64, a4: i64, a5: i64, a6: i64) -> Option<i64> {
    if crate::sched::in_scheduler() {
        return None;
    }
    match op & 0x7f {
        // FUTEX_WAIT, FUTEX_WAIT_BITSET
        0 | 9 => {
            let (sched, tid) = crate::tls::sim_sched()?;
            let sched = &*sched;
            if timeout != 0 {
                // timed waits (park_timeout, wait_timeout) wake up by themselves: let the kernel do it
                return None;
            }
            match sched.futex_wait(tid, addr, val) {
                Some(true) => Some(0),
                Some(false) => {
                    *__errno_location() = EAGAIN;
                    Some(-1)
                }
                None => None,
            }
        }
        // FUTEX_WAKE, FUTEX_WAKE_BITSET: from a simulated thread or from any other thread of the process
        1 | 10 => {
            let sched: &crate::sched::Sched = match crate::tls::sim_sched() {
                Some((s, _)) => &*s,
                None => crate::sched::active()?,
            };
            let woken = sched.futex_wake(addr, val as usize) as i64;
            // there may be real sleepers as well (a thread that went to the kernel in free-run mode)
            let real = raw(SYS_FUTEX, a1, a2, a3, a4, a5, a6);
            Some(woken + real.max(0))
        }
        _ => None,
    }
}

/// Overrides libc's `syscall(2)` wrapper for this executable (same register-passing ABI as the
/// variadic original on x86_64 SysV).
#[no_mangle]
pub unsafe extern "C" fn syscall(num: i64, a1: i64, a2: i64, a3: i64, a4: i64, a5: i64, a6: i64) -> i64 {
    if num == SYS_FUTEX {
        if let Some(r) = intercept(a1 as usize, a2, a3 as u32, a4 as usize, a1, a2, a3, a4, a5, a6) {
            return r;
        }
    }
    raw(num, a1, a2, a3, a4, a5, a6)
}
