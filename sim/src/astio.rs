//! Conversion between the parser's AST and the serialisable mirror in `workload.rs`.
use crate::workload::{AstExpr, AstLit, AstNode};
use cel_parser::ast::*;
use cel_parser::reference::Val;

pub fn from_expr(e: &IdedExpr) -> AstNode {
    let ex = match &e.expr {
        Expr::Unspecified => AstExpr::Unspecified,
        Expr::Call(c) => AstExpr::Call {
            func: c.func_name.clone(),
            target: c.target.as_ref().map(|t| Box::new(from_expr(t))),
            args: c.args.iter().map(from_expr).collect(),
        },
        Expr::Comprehension(c) => AstExpr::Comprehension {
            iter_range: Box::new(from_expr(&c.iter_range)),
            iter_var: c.iter_var.clone(),
            iter_var2: c.iter_var2.clone(),
            accu_var: c.accu_var.clone(),
            accu_init: Box::new(from_expr(&c.accu_init)),
            loop_cond: Box::new(from_expr(&c.loop_cond)),
            loop_step: Box::new(from_expr(&c.loop_step)),
            result: Box::new(from_expr(&c.result)),
        },
        Expr::Ident(s) => AstExpr::Ident(s.clone()),
        Expr::List(l) => AstExpr::List(l.elements.iter().map(from_expr).collect()),
        Expr::Literal(v) => AstExpr::Literal(match v {
            Val::String(s) => AstLit::Str(s.clone()),
            Val::Boolean(b) => AstLit::Bool(*b),
            Val::Int(i) => AstLit::Int(*i),
            Val::UInt(u) => AstLit::UInt(*u),
            Val::Double(d) => AstLit::Double(d.to_bits()),
            Val::Bytes(b) => AstLit::Bytes(b.clone()),
            Val::Null => AstLit::Null,
        }),
        Expr::Map(m) => AstExpr::Map(
            m.entries
                .iter()
                .filter_map(|en| match &en.expr {
                    EntryExpr::MapEntry(me) => Some((en.id, from_expr(&me.key), from_expr(&me.value), me.optional)),
                    EntryExpr::StructField(_) => None,
                })
                .collect(),
        ),
        Expr::Select(s) => AstExpr::Select {
            operand: Box::new(from_expr(&s.operand)),
            field: s.field.clone(),
            test: s.test,
        },
        Expr::Struct(_) => AstExpr::Unspecified,
    };
    AstNode { id: e.id, e: ex }
}

pub fn to_expr(n: &AstNode) -> IdedExpr {
    let expr = match &n.e {
        AstExpr::Unspecified => Expr::Unspecified,
        AstExpr::Call { func, target, args } => Expr::Call(CallExpr {
            func_name: func.clone(),
            target: target.as_ref().map(|t| Box::new(to_expr(t))),
            args: args.iter().map(to_expr).collect(),
        }),
        AstExpr::Comprehension {
            iter_range,
            iter_var,
            iter_var2,
            accu_var,
            accu_init,
            loop_cond,
            loop_step,
            result,
        } => Expr::Comprehension(ComprehensionExpr {
            iter_range: Box::new(to_expr(iter_range)),
            iter_var: iter_var.clone(),
            iter_var2: iter_var2.clone(),
            accu_var: accu_var.clone(),
            accu_init: Box::new(to_expr(accu_init)),
            loop_cond: Box::new(to_expr(loop_cond)),
            loop_step: Box::new(to_expr(loop_step)),
            result: Box::new(to_expr(result)),
        }),
        AstExpr::Ident(s) => Expr::Ident(s.clone()),
        AstExpr::List(xs) => Expr::List(ListExpr {
            elements: xs.iter().map(to_expr).collect(),
        }),
        AstExpr::Literal(l) => Expr::Literal(match l {
            AstLit::Str(s) => Val::String(s.clone()),
            AstLit::Bool(b) => Val::Boolean(*b),
            AstLit::Int(i) => Val::Int(*i),
            AstLit::UInt(u) => Val::UInt(*u),
            AstLit::Double(d) => Val::Double(f64::from_bits(*d)),
            AstLit::Bytes(b) => Val::Bytes(b.clone()),
            AstLit::Null => Val::Null,
        }),
        AstExpr::Map(es) => Expr::Map(MapExpr {
            entries: es
                .iter()
                .map(|(id, k, v, opt)| IdedEntryExpr {
                    id: *id,
                    expr: EntryExpr::MapEntry(MapEntryExpr {
                        key: to_expr(k),
                        value: to_expr(v),
                        optional: *opt,
                    }),
                })
                .collect(),
        }),
        AstExpr::Select { operand, field, test } => Expr::Select(SelectExpr {
            operand: Box::new(to_expr(operand)),
            field: field.clone(),
            test: *test,
        }),
    };
    IdedExpr { id: n.id, expr }
}

/// Parses with the real parser and mirrors the result.
pub fn import(src: &str) -> Result<AstNode, String> {
    // the parser of the tree under test may reject or even panic on a source text: both are
    // "not compiled" to the caller, never a harness failure (C05 is not about compiling)
    let r = std::panic::catch_unwind(|| {
        let parser = cel_parser::Parser::default();
        match parser.parse(src) {
            Ok(e) => Ok(from_expr(&e)),
            Err(e) => Err(format!("{}", e)),
        }
    });
    match r {
        Ok(x) => x,
        Err(_) => Err("the parser panicked".to_string()),
    }
}
