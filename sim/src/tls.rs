//! Per-thread simulator state (real thread-local storage: every simulated thread is a real OS
//! thread), and the process-wide callbacks installed into `cel_interpreter::verif`.
use crate::rng::mix;
use crate::sched::Sched;
use crate::snap::{snap, Snap};
use crate::workload::{SITE_EDGE, SITE_STUB_Y};
use std::cell::Cell;
use cel_interpreter::Value;
use std::cell::RefCell;
use std::sync::Arc;

pub const N_SITES: usize = 6;

#[derive(Clone, Debug, Default)]
pub struct Probes {
    /// hook points hit, per site
    pub site_hits: [u64; N_SITES],
    pub stub_y: u64,
    pub stub_log: u64,
    pub stub_boom: u64,
    pub stub_pick: u64,
    pub stub_pick_nonempty: u64,
    pub append_list_unique: u64,
    pub append_list_shared: u64,
    pub append_str_unique: u64,
    pub append_str_shared: u64,
    pub buggify_fired: u64,
    pub map_iter_multi: u64,
    pub faults_fired: u64,
    pub faults_fired_in_comprehension: u64,
    pub comprehensions: u64,
    pub stub_yc: u64,
    pub preempted_at_shared_append: u64,
    pub preempted_in_comprehension_body: u64,
}

impl Probes {
    pub fn add(&mut self, o: &Probes) {
        for i in 0..N_SITES {
            self.site_hits[i] += o.site_hits[i];
        }
        self.stub_y += o.stub_y;
        self.stub_log += o.stub_log;
        self.stub_boom += o.stub_boom;
        self.stub_pick += o.stub_pick;
        self.stub_pick_nonempty += o.stub_pick_nonempty;
        self.append_list_unique += o.append_list_unique;
        self.append_list_shared += o.append_list_shared;
        self.append_str_unique += o.append_str_unique;
        self.append_str_shared += o.append_str_shared;
        self.buggify_fired += o.buggify_fired;
        self.map_iter_multi += o.map_iter_multi;
        self.faults_fired += o.faults_fired;
        self.comprehensions += o.comprehensions;
        self.faults_fired_in_comprehension += o.faults_fired_in_comprehension;
        self.stub_yc += o.stub_yc;
        self.preempted_at_shared_append += o.preempted_at_shared_append;
        self.preempted_in_comprehension_body += o.preempted_in_comprehension_body;
    }

    pub fn to_json(&self) -> serde_json::Value {
        serde_json::json!({
            "hook_resolve": self.site_hits[0],
            "hook_call": self.site_hits[1],
            "hook_lookup": self.site_hits[2],
            "hook_append_list": self.site_hits[3],
            "hook_append_str": self.site_hits[4],
            "hook_map_iter": self.site_hits[5],
            "stub_y": self.stub_y,
            "stub_log": self.stub_log,
            "stub_boom": self.stub_boom,
            "stub_pick": self.stub_pick,
            "stub_pick_nonempty": self.stub_pick_nonempty,
            "append_list_unique_owner": self.append_list_unique,
            "append_list_shared_owner": self.append_list_shared,
            "append_str_unique_owner": self.append_str_unique,
            "append_str_shared_owner": self.append_str_shared,
            "buggify_fired": self.buggify_fired,
            "map_iterated_multi_key": self.map_iter_multi,
            "callback_faults_fired": self.faults_fired,
            "comprehensions_entered": self.comprehensions,
            "callback_faults_fired_inside_comprehension_body": self.faults_fired_in_comprehension,
            "stub_yc_inside_comprehension_body": self.stub_yc,
            "preempted_at_append_of_shared_buffer": self.preempted_at_shared_append,
            "preempted_inside_comprehension_body": self.preempted_in_comprehension_body,
        })
    }
}

pub struct ThreadState {
    pub active: bool,
    pub tid: usize,
    pub sched: Option<Arc<Sched>>,
    pub oracle_depth: u32,
    pub enabled_sites: u32,
    // per execution
    pub exec_key: u64,
    pub boom_calls: u32,
    pub boom_fail_at: u32,
    pub boom_fired: bool,
    pub append_hits: u32,
    pub buggify_milli: u32,
    pub map_iter_multi_in_exec: bool,
    pub log: Vec<Snap>,
    // per thread
    pub retained: Vec<Value>,
    pub steps: u64,
    pub probes: Probes,
}

impl ThreadState {
    fn new() -> ThreadState {
        ThreadState {
            active: false,
            tid: 0,
            sched: None,
            oracle_depth: 0,
            enabled_sites: 0,
            exec_key: 0,
            boom_calls: 0,
            boom_fail_at: 0,
            boom_fired: false,
            append_hits: 0,
            buggify_milli: 0,
            map_iter_multi_in_exec: false,
            log: Vec::new(),
            retained: Vec::new(),
            steps: 0,
            probes: Probes::default(),
        }
    }
}

thread_local! {
    pub static TS: RefCell<ThreadState> = RefCell::new(ThreadState::new());
    /// fine-grained mode: instrumented edges left until this thread's next scheduling decision
    /// (0 = edge scheduling off for this thread right now)
    static EDGE_COUNTDOWN: Cell<u32> = const { Cell::new(0) };
    /// edges seen while the thread was active and outside oracle code
    static EDGES: Cell<u64> = const { Cell::new(0) };
    static EDGE_COUNTING: Cell<bool> = const { Cell::new(false) };
    /// (scheduler, thread index) of this thread while it is a simulated thread under the baton
    static SIM_SCHED: Cell<(*const Sched, usize)> = const { Cell::new((std::ptr::null(), 0)) };
}

/// For the futex seam: the scheduler this thread is simulated by, if any.
pub fn sim_sched() -> Option<(*const Sched, usize)> {
    SIM_SCHED
        .try_with(|c| {
            let (p, t) = c.get();
            if p.is_null() {
                None
            } else {
                Some((p, t))
            }
        })
        .unwrap_or(None)
}

/// Number of guards announced by the instrumented crate (0 = this is not the fine-grained build).
pub static N_GUARDS: std::sync::atomic::AtomicUsize = std::sync::atomic::AtomicUsize::new(0);

pub fn fine_build() -> bool {
    N_GUARDS.load(std::sync::atomic::Ordering::Relaxed) > 0
}

/// SanitizerCoverage callbacks. Only the cel_interpreter crate is instrumented (tools/rustc_wrap.sh),
/// so every call comes from interpreter code (including code a change under test adds to it).
#[no_mangle]
pub extern "C" fn __sanitizer_cov_trace_pc_guard_init(start: *mut u32, stop: *mut u32) {
    if start == stop {
        return;
    }
    let n = (stop as usize - start as usize) / 4;
    // SAFETY: the runtime contract of SanitizerCoverage: [start, stop) is an array of u32 guards.
    unsafe {
        if *start != 0 {
            return;
        }
        let base = N_GUARDS.fetch_add(n, std::sync::atomic::Ordering::SeqCst);
        for i in 0..n {
            *start.add(i) = (base + i + 1) as u32;
        }
    }
}

#[no_mangle]
pub extern "C" fn __sanitizer_cov_trace_pc_guard(_guard: *mut u32) {
    if !EDGE_COUNTING.try_with(|c| c.get()).unwrap_or(false) {
        return;
    }
    EDGES.with(|c| c.set(c.get() + 1));
    let fire = EDGE_COUNTDOWN.with(|c| {
        let v = c.get();
        if v == 0 {
            false
        } else if v == 1 {
            c.set(0);
            true
        } else {
            c.set(v - 1);
            false
        }
    });
    if fire {
        edge_decision();
    }
}

#[inline(never)]
fn edge_decision() {
    // This runs in the middle of arbitrary interpreter code, possibly while harness code further up
    // the stack holds the thread state (e.g. a stub cloning a value): never panic here (the
    // callback is `extern "C"`), just try again at the next edge.
    let target = TS
        .try_with(|c| match c.try_borrow_mut() {
            Ok(mut ts) => {
                if !ts.active || ts.oracle_depth > 0 {
                    return Err(false);
                }
                ts.steps += 1;
                match ts.sched.clone() {
                    Some(s) => Ok((s, ts.tid)),
                    None => Err(false),
                }
            }
            Err(_) => Err(true),
        })
        .unwrap_or(Err(false));
    let target = match target {
        Ok(t) => Some(t),
        Err(retry) => {
            if retry {
                EDGE_COUNTDOWN.with(|c| c.set(1));
            }
            None
        }
    };
    if let Some((s, tid)) = target {
        // no edge may be counted while we are inside the scheduler
        EDGE_COUNTING.with(|c| c.set(false));
        let (gap, _) = s.yield_point(tid, SITE_EDGE);
        EDGE_COUNTDOWN.with(|c| c.set(gap));
        EDGE_COUNTING.with(|c| c.set(true));
    }
}

pub fn set_edge_gap(gap: u32) {
    EDGE_COUNTDOWN.with(|c| c.set(gap));
}

pub fn edges_seen() -> u64 {
    EDGES.with(|c| c.get())
}

pub fn with<R>(f: impl FnOnce(&mut ThreadState) -> R) -> R {
    TS.with(|c| f(&mut c.borrow_mut()))
}

/// Resets this thread's simulator state and marks it active.
pub fn activate(tid: usize, sched: Option<Arc<Sched>>, enabled_sites: u32, buggify_milli: u32) {
    with(|ts| {
        *ts = ThreadState::new();
        ts.active = true;
        ts.tid = tid;
        // the Arc in `ts.sched` keeps the scheduler alive for as long as the raw pointer is published
        SIM_SCHED.with(|c| c.set((sched.as_ref().map(|s| Arc::as_ptr(s)).unwrap_or(std::ptr::null()), tid)));
        ts.sched = sched;
        ts.enabled_sites = enabled_sites;
        ts.buggify_milli = buggify_milli;
    });
    EDGES.with(|c| c.set(0));
    EDGE_COUNTDOWN.with(|c| c.set(0));
    EDGE_COUNTING.with(|c| c.set(true));
}

pub fn deactivate() -> (Probes, u64) {
    SIM_SCHED.with(|c| c.set((std::ptr::null(), 0)));
    EDGE_COUNTING.with(|c| c.set(false));
    EDGE_COUNTDOWN.with(|c| c.set(0));
    with(|ts| {
        ts.active = false;
        ts.sched = None;
        ts.retained.clear();
        (std::mem::take(&mut ts.probes), ts.steps)
    })
}

/// Prepares the per-execution counters. `fail_at` = 0 means no injected fault.
pub fn begin_exec(exec_key: u64, fail_at: u32) {
    with(|ts| {
        ts.exec_key = exec_key;
        ts.boom_calls = 0;
        ts.boom_fail_at = fail_at;
        ts.boom_fired = false;
        ts.append_hits = 0;
        ts.map_iter_multi_in_exec = false;
        ts.log.clear();
    })
}

pub struct ExecTelemetry {
    pub boom_calls: u32,
    pub boom_fired: bool,
    pub map_iter_multi: bool,
    pub log_len: usize,
}

pub fn end_exec() -> ExecTelemetry {
    with(|ts| ExecTelemetry {
        boom_calls: ts.boom_calls,
        boom_fired: ts.boom_fired,
        map_iter_multi: ts.map_iter_multi_in_exec,
        log_len: ts.log.len(),
    })
}

/// Oracle code (snapshots, lookups made by the checker) runs inside this guard so that the hook
/// points it hits neither schedule nor count.
pub struct OracleGuard {
    was_counting: bool,
}
impl OracleGuard {
    pub fn enter() -> OracleGuard {
        with(|ts| ts.oracle_depth += 1);
        let was_counting = EDGE_COUNTING.with(|c| c.replace(false));
        OracleGuard { was_counting }
    }
}
impl Drop for OracleGuard {
    fn drop(&mut self) {
        with(|ts| ts.oracle_depth -= 1);
        EDGE_COUNTING.with(|c| c.set(self.was_counting));
    }
}

fn yield_at(site: u32) -> bool {
    let target = with(|ts| {
        if !ts.active || ts.oracle_depth > 0 {
            return None;
        }
        if ts.enabled_sites & (1u32 << site) == 0 {
            return None;
        }
        ts.sched.clone().map(|s| (s, ts.tid))
    });
    if let Some((s, tid)) = target {
        let counting = EDGE_COUNTING.with(|c| c.replace(false));
        let (gap, switched) = s.yield_point(tid, site);
        EDGE_COUNTDOWN.with(|c| c.set(gap));
        EDGE_COUNTING.with(|c| c.set(counting));
        switched
    } else {
        false
    }
}

fn sched_hook(site: u32, aux: u64) {
    let skip = with(|ts| {
        if !ts.active || ts.oracle_depth > 0 {
            return true;
        }
        ts.steps += 1;
        if (site as usize) < N_SITES {
            ts.probes.site_hits[site as usize] += 1;
        }
        match site {
            0 => {
                if aux == 6 {
                    ts.probes.comprehensions += 1;
                }
            }
            3 => {
                if aux <= 1 {
                    ts.probes.append_list_unique += 1
                } else {
                    ts.probes.append_list_shared += 1
                }
            }
            4 => {
                if aux <= 1 {
                    ts.probes.append_str_unique += 1
                } else {
                    ts.probes.append_str_shared += 1
                }
            }
            5 => {
                if aux >= 2 {
                    ts.probes.map_iter_multi += 1;
                    ts.map_iter_multi_in_exec = true;
                }
            }
            _ => {}
        }
        false
    });
    if !skip {
        let switched = yield_at(site);
        if switched && (site == 3 || site == 4) && aux >= 2 {
            with(|ts| ts.probes.preempted_at_shared_append += 1);
        }
    }
}

fn buggify_hook(site: u32) -> bool {
    with(|ts| {
        if !ts.active || ts.oracle_depth > 0 || ts.buggify_milli == 0 {
            return false;
        }
        ts.append_hits += 1;
        let h = mix(&[ts.exec_key, site as u64, ts.append_hits as u64]);
        let fire = (h % 1000) < ts.buggify_milli as u64;
        if fire {
            ts.probes.buggify_fired += 1;
        }
        fire
    })
}

/// Installs the process-wide hooks (idempotent).
pub fn install_hooks() {
    cel_interpreter::verif::set_sched_hook(Some(sched_hook));
    cel_interpreter::verif::set_buggify_hook(Some(buggify_hook));
}

// ---- stub host functions' bodies -------------------------------------------------------------

pub fn stub_y() {
    let act = with(|ts| {
        if ts.active && ts.oracle_depth == 0 {
            ts.probes.stub_y += 1;
            ts.steps += 1;
            true
        } else {
            false
        }
    });
    if act {
        yield_at(SITE_STUB_Y);
    }
}

/// `yc(v, 'x')`: like `y`, emitted by the generator only inside comprehension bodies; `var` is
/// the iteration variable of the innermost enclosing macro.
pub fn stub_yc(var: &str) {
    let target = with(|ts| {
        if ts.active && ts.oracle_depth == 0 {
            ts.probes.stub_yc += 1;
            ts.steps += 1;
            Some((ts.sched.clone(), ts.tid))
        } else {
            None
        }
    });
    if let Some((sched, tid)) = target {
        if let Some(s) = &sched {
            s.note_comp_var(tid, var);
        }
        if yield_at(SITE_STUB_Y) {
            with(|ts| ts.probes.preempted_in_comprehension_body += 1);
        }
    }
}

pub fn stub_log(v: &Value) {
    let s = snap(v);
    with(|ts| {
        if ts.active {
            ts.probes.stub_log += 1;
            if ts.log.len() < 64 {
                ts.log.push(s);
            }
        }
    })
}

/// Returns true if this call must fail. `in_comprehension`: the call site is inside a macro body.
pub fn stub_boom(in_comprehension: bool) -> bool {
    with(|ts| {
        if !ts.active {
            return false;
        }
        ts.probes.stub_boom += 1;
        ts.boom_calls += 1;
        if ts.boom_fail_at != 0 && ts.boom_calls == ts.boom_fail_at {
            ts.boom_fired = true;
            ts.probes.faults_fired += 1;
            if in_comprehension {
                ts.probes.faults_fired_in_comprehension += 1;
            }
            true
        } else {
            false
        }
    })
}

pub fn stub_pick(i: i64) -> Value {
    with(|ts| {
        if ts.active {
            ts.probes.stub_pick += 1;
        }
        if ts.retained.is_empty() {
            Value::Null
        } else {
            if ts.active {
                ts.probes.stub_pick_nonempty += 1;
            }
            let n = ts.retained.len();
            ts.retained[(i.unsigned_abs() as usize) % n].clone()
        }
    })
}
