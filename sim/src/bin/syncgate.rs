//! Compile-time precondition of C05 (DESIGN §3.3): a program, a root context and values can be
//! shared by reference among threads. If cel-interpreter builds but this does not, sharing
//! "by reference among threads" is no longer expressible.
use cel_interpreter::{Context, Program, Value};

fn assert_send_sync<T: Send + Sync>() {}

fn main() {
    assert_send_sync::<Program>();
    assert_send_sync::<Context<'static>>();
    assert_send_sync::<Value>();
    assert_send_sync::<cel_interpreter::ExecutionError>();
    // the documented usage shape (example/src/threads.rs, example/src/axum.rs)
    let program = Program::compile("1 + 1").unwrap();
    let context = std::sync::Arc::new(Context::default());
    std::thread::scope(|s| {
        for _ in 0..2 {
            let c = context.clone();
            let p = &program;
            s.spawn(move || {
                let inner = c.new_inner_scope();
                p.execute(&inner).unwrap()
            });
        }
    });
    println!("syncgate ok");
}
