use std::hash::Hasher;

/// FNV-1a: a fixed, seedless hasher for digests (never `RandomState`).
pub struct Fnv(u64);
impl Default for Fnv {
    fn default() -> Self {
        Fnv(0xcbf2_9ce4_8422_2325)
    }
}
impl Hasher for Fnv {
    fn write(&mut self, bytes: &[u8]) {
        for b in bytes {
            self.0 = (self.0 ^ *b as u64).wrapping_mul(0x0000_0100_0000_01b3);
        }
    }
    fn finish(&self) -> u64 {
        self.0
    }
}

pub fn digest_str(s: &str) -> u64 {
    let mut h = Fnv::default();
    h.write(s.as_bytes());
    h.finish()
}

pub fn digest_words(ws: &[u64]) -> u64 {
    let mut h = Fnv::default();
    for w in ws {
        h.write(&w.to_le_bytes());
    }
    h.finish()
}
