//! Host functions registered on every simulated root context: the existing seam through which
//! the simulator observes and perturbs an execution from the inside.
use crate::tls;
use cel_interpreter::extractors::This;
use cel_interpreter::{Context, ExecutionError, FunctionContext, Value};

type R = Result<Value, ExecutionError>;

/// identity + scheduling point
fn y(v: Value) -> R {
    tls::stub_y();
    Ok(v)
}

/// identity + record the argument in the per-execution call log (telemetry)
fn log(v: Value) -> R {
    tls::stub_log(&v);
    Ok(v)
}

/// `y` inside a comprehension body; the second argument names the iteration variable
fn yc(v: Value, var: std::sync::Arc<String>) -> R {
    tls::stub_yc(var.as_str());
    Ok(v)
}

/// `boom` inside a comprehension body (same fault plan, separate reach probe)
fn boomc(ftx: &FunctionContext, v: Value) -> R {
    if tls::stub_boom(true) {
        Err(ftx.error("injected fault"))
    } else {
        Ok(v)
    }
}

/// identity unless the fault plan of the current execution says this call fails
fn boom(ftx: &FunctionContext, v: Value) -> R {
    if tls::stub_boom(false) {
        Err(ftx.error("injected fault"))
    } else {
        Ok(v)
    }
}

/// the i-th value this thread retained from earlier executions (Null if none)
fn pick(i: i64) -> R {
    Ok(tls::stub_pick(i))
}

/// host override of the built-in `size`
fn size_override(ftx: &FunctionContext, This(this): This<Value>) -> R {
    let n = match this {
        Value::List(l) => l.len(),
        Value::Map(m) => m.map.len(),
        Value::String(s) => s.len(),
        Value::Bytes(b) => b.len(),
        _ => return Err(ftx.error("size_override: unsupported")),
    };
    Ok(Value::Int(n as i64 + 1000))
}

pub fn register(ctx: &mut Context, override_builtin: bool) {
    ctx.add_function("y", y);
    ctx.add_function("log", log);
    ctx.add_function("boom", boom);
    ctx.add_function("yc", yc);
    ctx.add_function("boomc", boomc);
    ctx.add_function("pick", pick);
    if override_builtin {
        ctx.add_function("size", size_override);
    }
}
