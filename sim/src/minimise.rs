//! Delta-debugging of a failing run: shrink the workload (threads, ops, programs, recipe, faults)
//! and then the schedule (fewer pre-emptions) while the same invariant class keeps failing.
use crate::run::{run_workload, RunOptions};
use crate::workload::*;
use std::time::Instant;

struct Ctx {
    class: String,
    t0: Instant,
    budget_s: u64,
    tried: u64,
    fresh_seeds: u64,
    /// run every candidate in a child process (the failure kills or deadlocks the process)
    subprocess: bool,
    template: ReplayFile,
}

impl Ctx {
    fn out_of_time(&self) -> bool {
        self.t0.elapsed().as_secs() >= self.budget_s
    }

    /// Does `w` still fail with the same invariant class? Tries the given schedule first, then a
    /// number of fresh scheduler seeds. Returns the exact trace and violation of the failing run.
    fn fails(&mut self, w: &Workload, schedule: Option<&[u8]>) -> Option<(Workload, Vec<u8>, ViolationInfo)> {
        self.tried += 1;
        if self.subprocess {
            return self.fails_in_child(w);
        }
        let attempt = |opts: RunOptions, w: &Workload| -> Option<(Workload, Vec<u8>, ViolationInfo)> {
            let res = run_workload(w, &opts);
            if res.harness_error.is_some() {
                return None;
            }
            match res.violation {
                // the workload that failed is returned too: a fresh scheduler seed changes it (the
                // stream of edge gaps hangs off that seed), and the trace only replays against it
                Some(v) if v.class() == self.class => Some((w.clone(), res.trace, v)),
                _ => None,
            }
        };
        if w.engine != Engine::B {
            return attempt(RunOptions::default(), w);
        }
        if let Some(s) = schedule {
            if let Some(r) = attempt(
                RunOptions {
                    explicit_schedule: Some(s.to_vec()),
                    free_run: false,
                    use_ast: false,
                },
                w,
            ) {
                return Some(r);
            }
        }
        for k in 0..self.fresh_seeds {
            if self.out_of_time() {
                break;
            }
            let mut w2 = w.clone();
            w2.sched.seed = crate::rng::mix(&[w.sched.seed, k, 0x5eed]);
            if k % 3 == 1 {
                w2.sched.policy = Policy::Random { p_milli: 300 };
            }
            if let Some(r) = attempt(RunOptions::default(), &w2) {
                return Some(r);
            }
        }
        None
    }
}

impl Ctx {
    /// Writes the candidate as a replay file and runs `celsim replay-once` on it in a child process.
    /// The candidate fails if the child is killed by a signal, reports a deadlock (exit 4), or
    /// reports a violation of the same class. The schedule is the candidate's own seeded policy
    /// (deterministic), so no explicit trace is needed.
    fn fails_in_child(&mut self, w: &Workload) -> Option<(Workload, Vec<u8>, ViolationInfo)> {
        use std::os::unix::process::ExitStatusExt;
        let mut rf = self.template.clone();
        rf.workload = w.clone();
        rf.schedule = vec![];
        let tmp = std::env::temp_dir().join(format!("celsim-min-{}-{}.json", std::process::id(), self.tried));
        std::fs::write(&tmp, serde_json::to_string(&rf).ok()?).ok()?;
        let exe = std::env::current_exe().ok()?;
        let out = std::process::Command::new(exe).arg("replay-once").arg(&tmp).output().ok();
        let _ = std::fs::remove_file(&tmp);
        let out = out?;
        let text = String::from_utf8_lossy(&out.stdout).to_string();
        let class_line = text.lines().find_map(|l| l.strip_prefix("CLASS=").map(|s| s.to_string()));
        // only signals that memory-unsafe or aborting code raises (SIGILL, SIGABRT, SIGBUS, SIGFPE, SIGSEGV)
        let crashed = matches!(out.status.signal(), Some(4) | Some(6) | Some(7) | Some(8) | Some(11)) || matches!(out.status.code(), Some(132) | Some(134) | Some(135) | Some(136) | Some(139));
        let deadlocked = out.status.code() == Some(4);
        let same = match (&class_line, crashed, deadlocked) {
            (_, true, _) => self.class == "process-crash",
            (_, _, true) => self.class == "I6-deadlock",
            (Some(c), _, _) => out.status.code() == Some(1) && *c == self.class,
            _ => false,
        };
        if same {
            Some((w.clone(), vec![], self.template.violation.clone()))
        } else {
            None
        }
    }
}

fn remap_schedule_drop_thread(s: &[u8], t: usize) -> Vec<u8> {
    s.iter().filter(|x| **x as usize != t).map(|x| if (*x as usize) > t { *x - 1 } else { *x }).collect()
}

fn shrink_vspec(v: &VSpec) -> Vec<VSpec> {
    match v {
        VSpec::List(xs) if !xs.is_empty() => {
            let mut out = vec![VSpec::List(vec![]), VSpec::List(xs[..xs.len() / 2].to_vec())];
            if xs.len() > 1 {
                out.push(VSpec::List(xs[..xs.len() - 1].to_vec()));
            }
            out
        }
        VSpec::Map(es) if !es.is_empty() => vec![VSpec::Map(vec![]), VSpec::Map(es[..es.len() - 1].to_vec())],
        VSpec::Str(s) if !s.is_empty() => vec![VSpec::Str(String::new()), VSpec::Str("a".into())],
        VSpec::Int(i) if *i != 0 && *i != 1 => vec![VSpec::Int(1)],
        _ => vec![],
    }
}

pub fn minimise(mut rf: ReplayFile, budget_s: u64, subprocess: bool) -> ReplayFile {
    let mut cx = Ctx {
        class: rf.violation.class(),
        t0: Instant::now(),
        budget_s,
        tried: 0,
        fresh_seeds: if subprocess { 0 } else { 40 },
        subprocess,
        template: rf.clone(),
    };
    let mut w = rf.workload.clone();
    let mut sched: Vec<u8> = rle_decode(&rf.schedule);
    let mut viol = rf.violation.clone();
    // make sure the starting point fails at all
    match cx.fails(&w, Some(&sched)) {
        Some((_, tr, v)) => {
            sched = tr;
            viol = v;
        }
        None => {
            rf.notes.push("minimiser: the recorded run did not fail again; file left as recorded".into());
            rf.deterministic_replay = false;
            return rf;
        }
    }

    macro_rules! accept {
        ($cand:expr, $s:expr) => {{
            let cand: Workload = $cand;
            let s: Option<Vec<u8>> = $s;
            if let Some((failed, tr, v)) = cx.fails(&cand, s.as_deref()) {
                w = failed;
                sched = tr;
                viol = v;
                true
            } else {
                false
            }
        }};
    }

    let mut progress = true;
    let mut rounds = 0;
    while progress && rounds < 6 && !cx.out_of_time() {
        progress = false;
        rounds += 1;
        // 1. drop threads
        let mut t = 0;
        while w.threads.len() > 1 && t < w.threads.len() && !cx.out_of_time() {
            let mut cand = w.clone();
            cand.threads.remove(t);
            cand.sched.stalls.retain(|s| s.thread != t);
            for s in cand.sched.stalls.iter_mut() {
                if s.thread > t {
                    s.thread -= 1;
                }
            }
            let s = remap_schedule_drop_thread(&sched, t);
            if accept!(cand, Some(s)) {
                progress = true;
            } else {
                t += 1;
            }
        }
        // 2. truncate op lists from the tail (halving), then drop single ops
        for t in 0..w.threads.len() {
            let mut keep = w.threads[t].ops.len();
            while keep > 0 && !cx.out_of_time() {
                let try_len = keep / 2;
                let mut cand = w.clone();
                cand.threads[t].ops.truncate(try_len);
                if accept!(cand, Some(sched.clone())) {
                    keep = try_len;
                    progress = true;
                } else {
                    break;
                }
            }
            let mut i = w.threads[t].ops.len();
            while i > 0 && !cx.out_of_time() {
                i -= 1;
                if i >= w.threads[t].ops.len() {
                    continue;
                }
                let mut cand = w.clone();
                cand.threads[t].ops.remove(i);
                if accept!(cand, Some(sched.clone())) {
                    progress = true;
                }
            }
        }
        // 3. simplify programs: replace by a child subtree or a literal
        for p in 0..w.programs.len() {
            let used = w.threads.iter().any(|t| t.ops.iter().any(|o| matches!(o, Op::Exec { prog, .. } if *prog % w.programs.len() == p)));
            if !used {
                if w.programs[p].src != "0" {
                    let mut cand = w.clone();
                    cand.programs[p] = ProgramSpec {
                        src: "0".into(),
                        tree: Some(G::Lit("0".into())),
                        order_sensitive: false,
                        ast: None,
                    };
                    if accept!(cand, Some(sched.clone())) {
                        progress = true;
                    }
                }
                continue;
            }
            let mut changed = true;
            while changed && !cx.out_of_time() {
                changed = false;
                let tree = match &w.programs[p].tree {
                    Some(t) => t.clone(),
                    None => break,
                };
                let mut cands: Vec<G> = tree.children().into_iter().cloned().collect();
                cands.sort_by_key(|g| g.size());
                for c in cands {
                    let mut cand = w.clone();
                    cand.programs[p].src = c.render();
                    cand.programs[p].tree = Some(c);
                    if crate::astio::import(&cand.programs[p].src).is_err() {
                        continue;
                    }
                    if accept!(cand, Some(sched.clone())) {
                        changed = true;
                        progress = true;
                        break;
                    }
                }
            }
        }
        // 3b. drop programs nobody executes any more (remapping indices)
        let mut p = w.programs.len();
        while p > 0 && w.programs.len() > 1 && !cx.out_of_time() {
            p -= 1;
            let n = w.programs.len();
            let used = w.threads.iter().any(|t| t.ops.iter().any(|o| matches!(o, Op::Exec { prog, .. } if *prog % n == p)));
            if used {
                continue;
            }
            let mut cand = w.clone();
            cand.programs.remove(p);
            for t in cand.threads.iter_mut() {
                for o in t.ops.iter_mut() {
                    if let Op::Exec { prog, .. } = o {
                        let q = *prog % n;
                        *prog = if q > p { q - 1 } else { q };
                    }
                }
            }
            if accept!(cand, Some(sched.clone())) {
                progress = true;
            }
        }
        // 4. recipe: drop variables, shrink values
        let mut vi = 0;
        while vi < w.recipe.vars.len() && !cx.out_of_time() {
            let mut cand = w.clone();
            cand.recipe.vars.remove(vi);
            if accept!(cand, Some(sched.clone())) {
                progress = true;
            } else {
                let mut shrunk = false;
                for sv in shrink_vspec(&w.recipe.vars[vi].1) {
                    let mut cand = w.clone();
                    cand.recipe.vars[vi].1 = sv;
                    if accept!(cand, Some(sched.clone())) {
                        progress = true;
                        shrunk = true;
                        break;
                    }
                }
                if !shrunk {
                    vi += 1;
                }
            }
        }
        // 5. faults and knobs
        {
            let mut cand = w.clone();
            let mut any = false;
            for t in cand.threads.iter_mut() {
                for o in t.ops.iter_mut() {
                    if let Op::Exec { fault, .. } = o {
                        if fault.is_some() {
                            *fault = None;
                            any = true;
                        }
                    }
                }
            }
            if any && accept!(cand, Some(sched.clone())) {
                progress = true;
            }
            for f in 0..4 {
                let mut cand = w.clone();
                match f {
                    0 => cand.knobs.buggify_milli = 0,
                    1 => cand.knobs.twin_other = false,
                    2 => cand.recipe.override_builtin = false,
                    _ => {
                        cand.private_recipes.clear();
                        for t in cand.threads.iter_mut() {
                            t.private_recipe = None;
                        }
                    }
                }
                if cand != w && accept!(cand, Some(sched.clone())) {
                    progress = true;
                }
            }
        }
    }
    // 6. fewer pre-emptions: try to merge each schedule segment into its predecessor
    if w.engine == Engine::B && !subprocess {
        let mut seg = 1;
        while !cx.out_of_time() {
            let rle = rle_encode(&sched);
            if seg >= rle.len() {
                break;
            }
            let mut cand_rle = rle.clone();
            let (_, n) = cand_rle.remove(seg);
            cand_rle[seg - 1].1 += n;
            let cand_s = rle_decode(&cand_rle);
            let saved_fresh = cx.fresh_seeds;
            cx.fresh_seeds = 0;
            let r = cx.fails(&w, Some(&cand_s));
            cx.fresh_seeds = saved_fresh;
            match r {
                Some((_, tr, v)) if rle_encode(&tr).len() < rle.len() => {
                    sched = tr;
                    viol = v;
                }
                _ => seg += 1,
            }
        }
    }
    // final confirmation: the file must replay exactly, three times
    let mut stable = true;
    for _ in 0..3 {
        let saved_fresh = cx.fresh_seeds;
        cx.fresh_seeds = 0;
        let r = cx.fails(&w, Some(&sched));
        cx.fresh_seeds = saved_fresh;
        match r {
            Some((_, tr, v)) => {
                if subprocess {
                    continue;
                }
                if tr != sched || v.invariant != viol.invariant || v.thread != viol.thread || v.op_index != viol.op_index {
                    stable = false;
                }
            }
            None => stable = false,
        }
    }
    rf.workload = w;
    rf.schedule = rle_encode(&sched);
    rf.violation = viol;
    rf.minimised = true;
    rf.deterministic_replay = stable;
    rf.notes.push(format!("minimiser: {} candidates tried in {:.1}s", cx.tried, cx.t0.elapsed().as_secs_f64()));
    rf
}
