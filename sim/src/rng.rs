//! The only randomness source of the simulator: splitmix64 for seed derivation,
//! xoshiro256** for per-run streams. No OS entropy, no clock.

#[inline]
pub fn splitmix64(x: u64) -> u64 {
    let mut z = x.wrapping_add(0x9e37_79b9_7f4a_7c15);
    z = (z ^ (z >> 30)).wrapping_mul(0xbf58_476d_1ce4_e5b9);
    z = (z ^ (z >> 27)).wrapping_mul(0x94d0_49bb_1331_11eb);
    z ^ (z >> 31)
}

/// Pure hash of several words (used for per-hit decisions that must not depend on a stream position).
pub fn mix(words: &[u64]) -> u64 {
    let mut h = 0x243f_6a88_85a3_08d3u64;
    for w in words {
        h = splitmix64(h ^ *w);
    }
    h
}

#[derive(Clone, Debug)]
pub struct Rng {
    s: [u64; 4],
}

impl Rng {
    pub fn new(seed: u64) -> Rng {
        let mut x = seed;
        let mut s = [0u64; 4];
        for w in s.iter_mut() {
            x = splitmix64(x);
            *w = x;
        }
        if s == [0; 4] {
            s[0] = 1;
        }
        Rng { s }
    }

    #[inline]
    pub fn next_u64(&mut self) -> u64 {
        let result = self.s[1].wrapping_mul(5).rotate_left(7).wrapping_mul(9);
        let t = self.s[1] << 17;
        self.s[2] ^= self.s[0];
        self.s[3] ^= self.s[1];
        self.s[1] ^= self.s[2];
        self.s[0] ^= self.s[3];
        self.s[2] ^= t;
        self.s[3] = self.s[3].rotate_left(45);
        result
    }

    /// Uniform in 0..n (n > 0).
    #[inline]
    pub fn below(&mut self, n: u64) -> u64 {
        debug_assert!(n > 0);
        // multiply-shift; bias is irrelevant for our purposes
        ((self.next_u64() as u128 * n as u128) >> 64) as u64
    }

    #[inline]
    pub fn range(&mut self, lo: i64, hi_incl: i64) -> i64 {
        lo + self.below((hi_incl - lo + 1) as u64) as i64
    }

    #[inline]
    pub fn usize(&mut self, n: usize) -> usize {
        self.below(n as u64) as usize
    }

    /// True with probability num/den.
    #[inline]
    pub fn chance(&mut self, num: u64, den: u64) -> bool {
        self.below(den) < num
    }

    pub fn pick<'a, T>(&mut self, xs: &'a [T]) -> &'a T {
        &xs[self.usize(xs.len())]
    }

    /// Log-uniform integer in lo..=hi (lo >= 1).
    pub fn log_uniform(&mut self, lo: u64, hi: u64) -> u64 {
        let l = (lo as f64).ln();
        let h = ((hi + 1) as f64).ln();
        let u = (self.next_u64() >> 11) as f64 / (1u64 << 53) as f64;
        let v = (l + u * (h - l)).exp().floor() as u64;
        v.clamp(lo, hi)
    }

    pub fn shuffle<T>(&mut self, xs: &mut [T]) {
        for i in (1..xs.len()).rev() {
            let j = self.usize(i + 1);
            xs.swap(i, j);
        }
    }

    pub fn fork(&mut self) -> Rng {
        Rng::new(self.next_u64())
    }
}
